package main

// Structural predicates of a (graph, partition) pair and the derivation of the structural condition that goes into
// a signature. Conditions never contain graph ids or values.
//
// Derivation (minimisation): the failing cases of one failure class are visited in enumeration order (smallest graph
// first). For the first case not yet explained, the smallest set S of its structural predicates is searched such that
// NO case outside the failure class (in the explored universe) satisfies all predicates of S — i.e. S is sufficient
// for the failure within the bounds. Every later failing case that satisfies S receives the same signature.

import (
	"sort"
	"strings"
)

var atomNames = []string{
	"collapsed-fragments-share-register",                 // 0 a CP holds several fragments (all kinds use r0)
	"several-cps",                                        // 1
	"link-inside-cp",                                     // 2
	"link-crosses-cp-boundary",                           // 3
	"fan-out-inside-cp",                                  // 4 one producer port, two consumers in its own block
	"fan-out-both-inside-and-outside-cp",                 // 5
	"fan-out-crosses-cp-boundary",                        // 6 one producer port, two consumers outside its block
	"external-input-fan-out",                             // 7
	"two-external-outputs-from-one-port",                 // 8
	"mutually-dependent-cps",                             // 9
	"two-temporaries-in-one-cp",                          // 10 a block with two producer ports consumed inside it
	"second-fragment-input-from-link-inside-cp",          // 11
	"second-fragment-output-used",                        // 12
	"second-fragment-output-used-first-unused",           // 13
	"scratch-register-fragment-collapsed",                // 14
	"cp-with-two-external-inputs",                        // 15 (two input ports on one CP, external or from other CPs)
	"cp-with-two-outputs",                                // 16
	"cp-inputs-met-out-of-external-index-order",          // 17
	"two-input-fragment",                                 // 18
	"two-output-fragment",                                // 19
	"scratch-register-fragment",                          // 20
	"two-external-inputs",                                // 21
	"two-external-outputs",                               // 22
	"(reserved)",                                         // 23
	"cp-output-index-differs-from-its-input-count",       // 24 (some CP output o_k is allocated when k != inputs met so far)
	"external-input-index-differs-from-cp-input-index",   // 25
	"external-output-index-differs-from-cp-output-index", // 26
}

func (g *Graph) featureMask(c Config) uint32 {
	var m uint32
	set := func(i int) { m |= 1 << uint(i) }
	n := g.N()
	blk := make([]int, n)
	for b, l := range c.Blocks {
		for _, i := range l {
			blk[i] = b
		}
		if len(l) > 1 {
			set(0)
			for _, i := range l {
				if kinds[g.Kinds[i]].Name == "scr" {
					set(14)
				}
			}
		}
	}
	if len(c.Blocks) > 1 {
		set(1)
	}
	consumers := map[Src][]int{}
	for i := range g.Kinds {
		for _, s := range g.In[i] {
			consumers[s] = append(consumers[s], i)
		}
	}
	for _, s := range g.Outs {
		consumers[s] = append(consumers[s], n)
	}
	bq := map[[2]int]bool{}
	tempsIn := make([]int, len(c.Blocks))
	for s, cs := range consumers {
		if s.Inst < 0 {
			if len(cs) > 1 {
				set(7)
			}
			continue
		}
		in, outb, extc := 0, 0, 0
		for _, ci := range cs {
			switch {
			case ci == n:
				outb++
				extc++
			case blk[ci] == blk[s.Inst]:
				in++
				set(2)
			default:
				outb++
				set(3)
				bq[[2]int{blk[s.Inst], blk[ci]}] = true
			}
		}
		if in >= 1 {
			tempsIn[blk[s.Inst]]++
		}
		if in >= 2 {
			set(4)
		}
		if in >= 1 && outb >= 1 {
			set(5)
		}
		if outb >= 2 {
			set(6)
		}
		if extc >= 2 {
			set(8)
		}
	}
	for _, t := range tempsIn {
		if t >= 2 {
			set(10)
		}
	}
	nb := len(c.Blocks)
	r := make([][]bool, nb)
	for i := range r {
		r[i] = make([]bool, nb)
	}
	for e := range bq {
		r[e[0]][e[1]] = true
	}
	for k := 0; k < nb; k++ {
		for i := 0; i < nb; i++ {
			for j := 0; j < nb; j++ {
				if r[i][k] && r[k][j] {
					r[i][j] = true
				}
			}
		}
	}
	for i := 0; i < nb; i++ {
		if r[i][i] {
			set(9)
		}
	}
	for i, k := range g.Kinds {
		kd := kinds[k]
		if len(kd.ResIn) > 1 {
			set(18)
			if s := g.In[i][1]; s.Inst >= 0 && blk[s.Inst] == blk[i] {
				set(11)
			}
		}
		if len(kd.ResOut) > 1 {
			set(19)
			if len(consumers[Src{i, 1}]) > 0 {
				set(12)
				if len(consumers[Src{i, 0}]) == 0 {
					set(13)
				}
			}
		}
		if kd.Name == "scr" {
			set(20)
		}
	}
	if g.NExtIn > 1 {
		set(21)
	}
	if len(g.Outs) > 1 {
		set(22)
	}
	// CP level IO numbering as the composer allocates it: inputs in order of (instance in list, port) for links coming
	// from outside the block; outputs in order of (instance in list, port) for ports with a consumer outside the block.
	for _, l := range c.Blocks {
		nin, nout := 0, 0
		lastExt := -1
		inBlock := func(i int) bool {
			for _, x := range l {
				if x == i {
					return true
				}
			}
			return false
		}
		for _, i := range l {
			// the composer scans the outputs of an instance before its inputs
			for p := range kinds[g.Kinds[i]].ResOut {
				outside, extIdx := false, []int{}
				for _, ci := range consumers[Src{i, p}] {
					if ci == n || !inBlock(ci) {
						outside = true
					}
				}
				for x, s := range g.Outs {
					if s == (Src{i, p}) {
						extIdx = append(extIdx, x)
					}
				}
				if outside {
					if nout != nin {
						set(24)
					}
					for _, x := range extIdx {
						if x != nout {
							set(26)
						}
					}
					nout++
				}
			}
			for _, s := range g.In[i] {
				if s.Inst < 0 || !inBlock(s.Inst) {
					if s.Inst < 0 {
						if s.Port != nin {
							set(25)
						}
						if s.Port < lastExt {
							set(17)
						}
						if s.Port > lastExt {
							lastExt = s.Port
						}
					}
					nin++
				}
			}
		}
		if nin >= 2 {
			set(15)
		}
		if nout >= 2 {
			set(16)
		}
	}
	return m
}

func maskNames(m uint32) []string {
	var r []string
	for i, nme := range atomNames {
		if m&(1<<uint(i)) != 0 {
			r = append(r, nme)
		}
	}
	return r
}

// conditionFinder assigns structural conditions to the failing cases of ONE failure class.
type conditionFinder struct {
	others map[uint32]bool // feature masks of the passing cases
	roots  []condRoot
}

type condRoot struct {
	mask uint32
	name string
}

func newConditionFinder(others map[uint32]bool) *conditionFinder {
	return &conditionFinder{others: others}
}

func (cf *conditionFinder) sufficient(s uint32) bool {
	for o := range cf.others {
		if o&s == s {
			return false
		}
	}
	return true
}

// condition returns the structural condition for a failing case with feature mask m.
func (cf *conditionFinder) condition(m uint32) string {
	for _, r := range cf.roots {
		if m&r.mask == r.mask {
			return r.name
		}
	}
	var idx []int
	for i := range atomNames {
		if m&(1<<uint(i)) != 0 {
			idx = append(idx, i)
		}
	}
	best := uint32(0)
	found := false
	// subsets by increasing size (<= 2), then by atom order
	var rec func(start, left int, cur uint32) bool
	rec = func(start, left int, cur uint32) bool {
		if left == 0 {
			if cf.sufficient(cur) {
				best = cur
				return true
			}
			return false
		}
		for x := start; x < len(idx); x++ {
			if rec(x+1, left-1, cur|1<<uint(idx[x])) {
				return true
			}
		}
		return false
	}
	for size := 0; size <= 2 && !found; size++ {
		if size > len(idx) {
			break
		}
		found = rec(0, size, 0)
	}
	if !found {
		// no small sufficient structural condition: the failure depends on more than the predicates can express
		nm := "not-separated-from-passing-cases-by-structure+" + condName(m&coreMask)
		cf.roots = append(cf.roots, condRoot{m, nm})
		return nm
	}
	cf.roots = append(cf.roots, condRoot{best, condName(best)})
	return condName(best)
}

// coreMask: predicates used to name cases that cannot be separated from passing ones (kept short)
const coreMask = uint32(1<<0 | 1<<3)

func condName(m uint32) string {
	if m == 0 {
		return "every-mapping"
	}
	n := maskNames(m)
	sort.Strings(n)
	return strings.Join(n, "+")
}
