package main

// Signatures: C06|<failure class>|<structural condition>. The structural condition is derived from the failing
// (graph, partition) only through structural predicates (graph.go: features) — never ids or values.

import (
	"fmt"
	"regexp"
	"strings"
)

var reNum = regexp.MustCompile(`[0-9]+`)

func normErr(s string) string {
	s = firstLine(s)
	s = reNum.ReplaceAllString(s, "N")
	s = strings.ToLower(s)
	s = regexp.MustCompile(`[^a-z]+`).ReplaceAllString(s, "-")
	s = strings.Trim(s, "-")
	if len(s) > 70 {
		s = s[:70]
	}
	return s
}

func structuralCondition(g *Graph, c Config) string {
	f := g.features(c)
	var parts []string
	add := func(b bool, s string) {
		if b {
			parts = append(parts, s)
		}
	}
	add(f.fanCross2, "fan-out-crosses-cp-boundary-twice")
	add(f.fanMixed, "fan-out-both-inside-and-outside-cp")
	add(f.fanInternal2, "fan-out-inside-cp")
	add(f.extInFan, "external-input-fan-out")
	add(f.nonConvex, "mutually-dependent-cps")
	if len(parts) == 0 {
		add(f.internalLink && f.crossLink, "internal-and-cross-cp-links")
		if len(parts) == 0 {
			add(f.internalLink, "collapsed-fragments-share-register")
			add(f.crossLink, "link-crosses-cp-boundary")
		}
	}
	if len(parts) == 0 {
		parts = append(parts, "single-instance")
	}
	return strings.Join(parts, "+")
}

func classify(g *Graph, c Config, r cfgResult, siblings []*cfgResult, _ *Graph) (sig, what string) {
	cond := structuralCondition(g, c)
	// metamorphic information: how many sibling partitions agree with the reference
	pass, total := 0, 0
	for _, s := range siblings {
		if s != nil {
			total++
			if s.Class == "" {
				pass++
			}
		}
	}
	meta := fmt.Sprintf("%d of %d partitions/orders of this graph give the reference result", pass, total)
	switch r.Class {
	case "reject":
		sig = "C06|assembler-rejects-valid-partition|" + normErr(r.Err) + "|" + cond
		what = fmt.Sprintf("topologically valid partition rejected at stage %s: %q; graph %s, partition %s; %s", r.Stage, firstLine(r.Err), g.Key(), c, meta)
	case "assembler-panic":
		sig = "C06|assembler-panic|" + normErr(r.Err) + "|" + cond
		what = fmt.Sprintf("assembler panics at stage %s: %s; graph %s, partition %s; %s", r.Stage, r.Err, g.Key(), c, meta)
	case "wrong-result":
		sig = "C06|wrong-result|" + cond
		what = fmt.Sprintf("input %v: simulated machine outputs %v, dataflow evaluation gives %v (%d input vectors wrong); graph %s, partition %s; %s", r.BadIn, r.Got, r.Want, r.NBad, g.Key(), c, meta)
	case "no-convergence":
		sig = "C06|no-convergence|" + cond
		what = fmt.Sprintf("input %v: outputs still change after the settle bound; graph %s, partition %s; %s", r.BadIn, g.Key(), c, meta)
	default:
		sig = "C06|" + r.Class + "|" + normErr(r.Err) + "|" + cond
		what = fmt.Sprintf("%s: %s; graph %s, partition %s; %s", r.Class, r.Err, g.Key(), c, meta)
	}
	return
}

func nondetCondition(g *Graph, c Config) string { return structuralCondition(g, c) }

func abortCondition(note string) string { return normErr(note) }
