package main

// Signatures: C06|<failure class>|<structural condition>. The structural condition is derived from the failing
// (graph, partition) only through structural predicates (graph.go: features) — never ids or values.

import (
	"fmt"
	"regexp"
	"strings"
)

var reNum = regexp.MustCompile(`[0-9]+`)

func normErr(s string) string {
	s = firstLine(s)
	s = reNum.ReplaceAllString(s, "N")
	s = strings.ToLower(s)
	s = regexp.MustCompile(`[^a-z]+`).ReplaceAllString(s, "-")
	s = strings.Trim(s, "-")
	if len(s) > 70 {
		s = s[:70]
	}
	return s
}

// classKey groups failures that are candidates for one root cause: failure class + normalised error text.
func classKey(r cfgResult) string {
	switch r.Class {
	case "wrong-result", "no-convergence":
		return r.Class
	}
	return r.Class + "|" + normErr(r.Err)
}

func classify(g *Graph, c Config, r cfgResult, cond string, siblings []*cfgResult) (sig, what string) {
	pass, total := 0, 0
	for _, s := range siblings {
		if s != nil {
			total++
			if s.Class == "" {
				pass++
			}
		}
	}
	meta := fmt.Sprintf("%d of %d partitions/orders of this graph give the reference result", pass, total)
	switch r.Class {
	case "reject":
		sig = "C06|assembler-rejects-valid-partition|" + normErr(r.Err) + "|" + cond
		what = fmt.Sprintf("topologically valid partition rejected at stage %s: %q; graph %s, partition %s; %s", r.Stage, firstLine(r.Err), g.Key(), c, meta)
	case "assembler-panic":
		sig = "C06|assembler-panic|" + normErr(r.Err) + "|" + cond
		what = fmt.Sprintf("assembler panics at stage %s: %s; graph %s, partition %s; %s", r.Stage, r.Err, g.Key(), c, meta)
	case "wrong-result":
		sig = "C06|wrong-result|" + cond
		what = fmt.Sprintf("input %v: simulated machine outputs %v, dataflow evaluation gives %v (%d input vectors wrong); graph %s, partition %s; %s", r.BadIn, r.Got, r.Want, r.NBad, g.Key(), c, meta)
	case "no-convergence":
		sig = "C06|no-convergence|" + cond
		what = fmt.Sprintf("input %v: outputs still change after the settle bound; graph %s, partition %s; %s", r.BadIn, g.Key(), c, meta)
	default:
		sig = "C06|" + r.Class + "|" + normErr(r.Err) + "|" + cond
		what = fmt.Sprintf("%s: %s; graph %s, partition %s; %s", r.Class, r.Err, g.Key(), c, meta)
	}
	return
}

func abortCondition(note string) string { return normErr(note) }
