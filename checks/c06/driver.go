package main

// Driver: runs the REAL code (basm public API -> bondmachine.VM) on one (graph, config).

import (
	"fmt"
	"os"
	"runtime/debug"
	"sort"
	"strings"

	"github.com/BondMachineHQ/BondMachine/pkg/basm"
	"github.com/BondMachineHQ/BondMachine/pkg/bminfo"
	"github.com/BondMachineHQ/BondMachine/pkg/bondmachine"
)

type built struct {
	bm      *bondmachine.Bondmachine
	progLen []int
	dump    string // canonical description of the assembled machine (programs + bonds)
}

// assemble runs the public pipeline. stage is "parse" / "assemble" / "tobm" / "" ; panics are caught.
func assemble(src string) (b *built, stage string, errText string, panicked bool) {
	defer func() {
		if r := recover(); r != nil {
			panicked = true
			errText = fmt.Sprintf("%v\n%s", r, trimStack(string(debug.Stack())))
			b = nil
		}
	}()
	stage = "init"
	bi := new(basm.BasmInstance)
	bi.BMinfo = new(bminfo.BMinfo)
	bi.BasmInstanceInit(nil)
	stage = "parse"
	if err := bi.ParseAssemblyStringDefault(src); err != nil {
		return nil, stage, err.Error(), false
	}
	stage = "assemble"
	if err := bi.RunAssembler(); err != nil {
		return nil, stage, err.Error(), false
	}
	stage = "tobm"
	if err := bi.Assembler2BondMachine(); err != nil {
		return nil, stage, err.Error(), false
	}
	stage = "getbm"
	bm := bi.GetBondMachine()
	if bm == nil {
		return nil, stage, "GetBondMachine returned nil", false
	}
	stage = "dump"
	res := &built{bm: bm}
	var sb strings.Builder
	fmt.Fprintf(&sb, "procs=%d inputs=%d outputs=%d\n", len(bm.Processors), bm.Inputs, bm.Outputs)
	for i, d := range bm.Domains {
		dis, err := d.Disassembler()
		if err != nil {
			return nil, stage, "disassembler: " + err.Error(), false
		}
		res.progLen = append(res.progLen, len(d.Program.Slocs))
		fmt.Fprintf(&sb, "domain %d: R=%d N=%d M=%d\n%s", i, d.R, d.N, d.M, dis)
	}
	fmt.Fprintf(&sb, "procs->domains %v\n", bm.Processors)
	bonds := bm.List_bonds()
	var bl []string
	for _, v := range bonds {
		bl = append(bl, v)
	}
	sort.Strings(bl)
	fmt.Fprintf(&sb, "bonds %s\n", strings.Join(bl, " "))
	res.dump = sb.String()
	return res, "", "", false
}

func trimStack(s string) string {
	lines := strings.Split(s, "\n")
	var keep []string
	for _, l := range lines {
		if strings.Contains(l, "/repo/") {
			keep = append(keep, strings.TrimSpace(l))
		}
		if len(keep) >= 6 {
			break
		}
	}
	return strings.Join(keep, "\n")
}

type simResult struct {
	Out       []uint8
	Settled   bool
	Ticks     int
	Err       string
	Panicked  bool
	WrongArty string // machine has a number of inputs/outputs different from the graph
}

// settleBound: every instance's outputs are stable at most 2 program loops of its CP after its inputs are stable
// (the loop running when the inputs settle may be half-done, the next one is clean); one extra tick per hop for
// the VM's post-compute output transfer. Depth <= number of instances.
func settleBound(nInst int, progLen []int) (T int, window int) {
	lmax := 1
	for _, l := range progLen {
		if l > lmax {
			lmax = l
		}
	}
	return 2*lmax*(nInst+1) + 2*nInst + 8, 2*lmax + 2
}

func simulate(b *built, nInst int, in []uint8, nOut int) (res simResult) {
	defer func() {
		if r := recover(); r != nil {
			res.Panicked = true
			res.Err = fmt.Sprintf("%v\n%s", r, trimStack(string(debug.Stack())))
		}
	}()
	bm := b.bm
	if bm.Inputs != len(in) || bm.Outputs != nOut {
		res.WrongArty = fmt.Sprintf("machine has %d inputs / %d outputs, graph has %d / %d", bm.Inputs, bm.Outputs, len(in), nOut)
		return
	}
	vm := &bondmachine.VM{Bmach: bm}
	if err := vm.Init(); err != nil {
		res.Err = "vm.Init: " + err.Error()
		return
	}
	if err := vm.Launch_processors(nil); err != nil {
		res.Err = "Launch_processors: " + err.Error()
		return
	}
	T, win := settleBound(nInst, b.progLen)
	read := func() []uint8 {
		o := make([]uint8, nOut)
		for i := range o {
			if v, ok := vm.Outputs_regs[i].(uint8); ok {
				o[i] = v
			} else {
				panic(fmt.Sprintf("output register %d holds %T, expected uint8", i, vm.Outputs_regs[i]))
			}
		}
		return o
	}
	for t := 0; t < T+win; t++ {
		for i, v := range in { // constant external inputs held for the whole run
			vm.Inputs_regs[i] = v
		}
		if _, err := vm.Step(nil); err != nil {
			res.Err = "vm.Step: " + err.Error()
			return
		}
		if t == T-1 {
			res.Out = read()
			res.Settled = true
		} else if t >= T {
			o := read()
			for i := range o {
				if o[i] != res.Out[i] {
					res.Settled = false
				}
			}
		}
	}
	res.Ticks = T + win
	return
}

// silence redirects the process' stdout to /dev/null (the basm passes print unconditionally) and returns a restore func.
func silence() func() {
	old := os.Stdout
	dn, err := os.OpenFile(os.DevNull, os.O_WRONLY, 0)
	if err != nil {
		return func() {}
	}
	os.Stdout = dn
	return func() { os.Stdout = old; dn.Close() }
}
