#!/bin/bash
# Detection demo for C06: builds property-breaking copies of /repo files in a scratch dir (never edits /repo)
# and runs the quick tier against each through VERIF_OVERLAY. usage: checks/c06/mutants.sh [mutant ...]
set -u
cd /verif && . /verif/env.sh
d=$(mktemp -d /tmp/c06mut.XXXXXX)
trap 'rm -rf "$d"' EXIT
python3 - "$d" <<'EOF'
import sys, json
d = sys.argv[1]
T = '/repo/pkg/bmline/transform.go'
F = '/repo/pkg/basm/fragmentcomposer.go'
def emit(name, path, old, new):
    src = open(path).read()
    assert src.count(old) == 1, name
    open(f'{d}/{name}.go', 'w').write(src.replace(old, new, 1))
    json.dump({"Replace": {path: f'{d}/{name}.go'}}, open(f'{d}/{name}.json', 'w'))
# m1: NextResource hands out r2 even when r2 is already used (a second temporary / a scratch register is reused)
emit('m1', T, "\t\tif !body.CheckArg(result) {\n\t\t\treturn result", "\t\tif !body.CheckArg(result) || i == 2 {\n\t\t\treturn result")
# m2: link -> CP output index taken from the input counter (index mix-up in the link->IO renumbering)
emit('m2', F, 'newAttach.BasmMeta = newAttach.BasmMeta.SetMeta("index", currNewOutput[1:])', 'newAttach.BasmMeta = newAttach.BasmMeta.SetMeta("index", currNewInput[1:])')
# m2b: the two external-input indices of a fragment are swapped when its input movs are emitted
emit('m2b', F, 'newIn.SetValue(newInputs[i][j])', 'newIn.SetValue(newInputs[i][len(newInputs[i])-1-j])')
# m3: the mov that loads the second input of a fragment from an internal link (temporary) is dropped
emit('m3', F, '''				for j, inp := range newRegAsInputs[i] {
					if inp != "" {''', '''				for j, inp := range newRegAsInputs[i] {
					if inp != "" && j != 1 {''')
EOF
muts=("$@"); [ ${#muts[@]} -eq 0 ] && muts=(m1 m2 m2b m3)
for m in "${muts[@]}"; do
  echo "=== mutant $m"
  VERIF_OVERLAY="$d/$m.json" /verif/run.sh C06 quick 2>/dev/null | grep -E "^VIOLATION|signature:|^C06 tier" | cut -c1-220
done
# the mutant runs overwrite the evidence file and leave replay files of the mutants: restore a clean state
rm -f /verif/replays/C06/*.json
/verif/run.sh C06 quick 2>/dev/null | tail -1
