package main

// C02 (b): for dataflow-style BondMachines (handshaked IO only) the stream of values delivered on
// every external output is the same on the generated HDL as on the simulator, whatever the timing.
// Both back ends are explored separately and exhaustively against a protocol-abiding, nondeterministic
// environment (external producers may delay an offer, external consumers may delay an acknowledge,
// with a bounded number of delays per port), and a monitor compares every delivered value with the
// stream of an independent dataflow evaluation of the graph: both back ends equal the same
// timing-independent reference, hence each other.

import (
	"fmt"
	"strconv"
	"strings"
	"sync"

	"verif/engines/xs"
	"verif/lib/bmgen"
	"verif/lib/bmsys"

	"github.com/BondMachineHQ/BondMachine/pkg/bondmachine"
)

type dfProc struct {
	In  []string `json:"in"`  // producer endpoint feeding each input (e.g. "i0", "p0o1")
	Out int      `json:"out"` // number of outputs
}

type dfGraph struct {
	Name   string   `json:"name"`
	Procs  []dfProc `json:"procs"`
	ExtIn  int      `json:"ext_in"`
	ExtOut []string `json:"ext_out"` // producer endpoint feeding each external output
	// DomainOf (optional): processor i is an instance of domain DomainOf[i]; Procs[i] still describes processor i,
	// processors of one domain must have the same shape (they then run the same program)
	DomainOf []int `json:"domain_of,omitempty"`
}

func (g dfGraph) fanout() int {
	cnt := map[string]int{}
	for _, p := range g.Procs {
		for _, e := range p.In {
			cnt[e]++
		}
	}
	for _, e := range g.ExtOut {
		cnt[e]++
	}
	m := 0
	for _, c := range cnt {
		if c > m {
			m = c
		}
	}
	return m
}

func (g dfGraph) system() bmsys.System {
	var sys bmsys.System
	sys.ExtIn = g.ExtIn
	sys.ExtOut = len(g.ExtOut)
	for pi, p := range g.Procs {
		ops := []string{"j", "inc"}
		var prog []string
		for k := range p.In {
			prog = append(prog, fmt.Sprintf("i2rw r%d i%d", k, k))
		}
		if len(p.In) > 0 {
			ops = append(ops, "i2rw")
		}
		for k := 1; k < len(p.In); k++ {
			prog = append(prog, fmt.Sprintf("add r0 r%d", k))
			if k == 1 {
				ops = append(ops, "add")
			}
		}
		prog = append(prog, "inc r0")
		for j := 0; j < p.Out; j++ {
			prog = append(prog, fmt.Sprintf("r2owa r0 o%d", j))
		}
		if p.Out > 0 {
			ops = append(ops, "r2owa")
		}
		prog = append(prog, "j 0")
		sys.Procs = append(sys.Procs, bmsys.Proc{Spec: bmgen.ArchSpec{Rsize: 8, R: 2, N: uint8(len(p.In)), M: uint8(p.Out), O: 3, Ops: ops}, Program: prog})
		for k, e := range p.In {
			sys.Bonds = append(sys.Bonds, [2]string{fmt.Sprintf("p%di%d", pi, k), e})
		}
	}
	for k, e := range g.ExtOut {
		sys.Bonds = append(sys.Bonds, [2]string{"o" + strconv.Itoa(k), e})
	}
	if g.DomainOf != nil {
		// keep one Proc per domain (the first processor of each domain), in domain order
		nd := 0
		for _, d := range g.DomainOf {
			if d+1 > nd {
				nd = d + 1
			}
		}
		doms := make([]bmsys.Proc, nd)
		seen := make([]bool, nd)
		for i, d := range g.DomainOf {
			if !seen[d] {
				seen[d] = true
				doms[d] = sys.Procs[i]
			}
		}
		sys.Procs = doms
		sys.DomainOf = g.DomainOf
	}
	return sys
}

// reference: Kahn-style evaluation (each firing consumes one value per input, produces sum+1 on every output)
func (g dfGraph) reference(h int) [][]uint64 {
	streams := map[string][]uint64{}
	for i := 0; i < g.ExtIn; i++ {
		for n := 0; n < h; n++ {
			streams["i"+strconv.Itoa(i)] = append(streams["i"+strconv.Itoa(i)], inputValue(i, n))
		}
	}
	// processors with no inputs are free-running counters: not used in the families below
	done := make([]bool, len(g.Procs))
	for progress := true; progress; {
		progress = false
		for pi, p := range g.Procs {
			if done[pi] {
				continue
			}
			ready := true
			for _, e := range p.In {
				if _, ok := streams[e]; !ok {
					ready = false
				}
			}
			if !ready {
				continue
			}
			n := h
			for _, e := range p.In {
				if len(streams[e]) < n {
					n = len(streams[e])
				}
			}
			for j := 0; j < p.Out; j++ {
				name := fmt.Sprintf("p%do%d", pi, j)
				streams[name] = []uint64{}
				for k := 0; k < n; k++ {
					var s uint64
					for _, e := range p.In {
						s += streams[e][k]
					}
					streams[name] = append(streams[name], (s+1)&0xff)
				}
			}
			done[pi] = true
			progress = true
		}
	}
	var out [][]uint64
	for _, e := range g.ExtOut {
		out = append(out, streams[e])
	}
	return out
}

func inputValue(port, n int) uint64 { return uint64(port*40+n*3+2) & 0xff }

// ---- environment automata ---------------------------------------------------------------------

// per external input: phase 0 idle (next value n), 1 offering, 2 withdrawn waiting for received to fall
// per external output: phase 0 waiting for valid, 1 acknowledging (received=1) until valid falls
type envState struct {
	inPhase  []uint8
	inN      []uint8
	inStall  []uint8
	outPhase []uint8
	outN     []uint8
	outStall []uint8
}

func (e envState) clone() envState {
	return envState{append([]uint8{}, e.inPhase...), append([]uint8{}, e.inN...), append([]uint8{}, e.inStall...),
		append([]uint8{}, e.outPhase...), append([]uint8{}, e.outN...), append([]uint8{}, e.outStall...)}
}

func (e envState) key() string {
	return fmt.Sprint(e.inPhase, e.inN, e.inStall, e.outPhase, e.outN, e.outStall)
}

type bnode struct {
	bk  string
	hdl []byte
	sim *bondmachine.VM
	env envState
	// observed handshake lines after the last tick
	inRecv   []bool
	outValid []bool
	outData  []uint64
}

type bOutcome struct {
	g                          dfGraph
	backend                    string
	states, transitions, depth int
	closed                     bool
	capHit                     string
	notSimulable               string
	violations                 map[string]viol2
	delivered                  int
	stuckStates                int
	stuckSample                []string
}

type viol2 struct {
	class, detail string
	path          []string
}

type bworker struct {
	h *bmsys.HDL
	s *bmsys.SIM
}

// backendDelays: "sim+delay(inc=4)" = the simulator with a fixed simulated delay for one opcode (the simulator's own
// notion of a slow instruction, as `-sim-delays-file` configures it).
func backendDelays(backend string) map[string]int32 {
	i := strings.Index(backend, "+delay(")
	if i < 0 {
		return nil
	}
	kv := strings.SplitN(strings.TrimSuffix(backend[i+len("+delay("):], ")"), "=", 2)
	n, _ := strconv.Atoi(kv[1])
	return map[string]int32{kv[0]: int32(n)}
}

func exploreBehaviour(g dfGraph, backend string, horizon, stalls, maxStates int) bOutcome {
	delays := backendDelays(backend)
	fullBackend := backend
	if delays != nil {
		backend = "sim"
	}
	out := bOutcome{g: g, backend: fullBackend, violations: map[string]viol2{}}
	bm, err := bmsys.Build(g.system())
	if err != nil {
		out.notSimulable = err.Error()
		return out
	}
	ref := g.reference(horizon)
	nin, nout := g.ExtIn, len(g.ExtOut)
	var h0 *bmsys.HDL
	if backend == "hdl" {
		if h0, err = bmsys.NewHDL(bm); err != nil {
			out.notSimulable = err.Error()
			return out
		}
	}
	var pool sync.Pool
	pool.New = func() any {
		w := &bworker{}
		if backend == "hdl" {
			w.h = h0.Clone()
		} else {
			w.s, _ = bmsys.NewSIMDelays(bm, true, delays)
		}
		return w
	}
	var mu sync.Mutex
	addViol := func(class, detail string, path []string) {
		mu.Lock()
		if _, ok := out.violations[class]; !ok {
			out.violations[class] = viol2{class, detail, path}
		}
		mu.Unlock()
	}
	isDone := func(e envState) bool {
		for k := 0; k < nout; k++ {
			if int(e.outN[k]) < len(ref[k]) {
				return false
			}
		}
		return true
	}
	var ex *xs.Explorer[bnode]
	ex = &xs.Explorer[bnode]{
		Key:       func(n bnode) string { return n.bk + "#" + n.env.key() },
		MaxStates: maxStates,
		Workers:   4,
		KeepGraph: true,
		Succ: func(id int, n bnode) []xs.Edge[bnode] {
			if isDone(n.env) {
				return nil
			}
			w := pool.Get().(*bworker)
			defer pool.Put(w)
			// environment choices for this tick: per input in phase 0 with values left: offer now or stall (if budget);
			// per output seeing valid in phase 0: acknowledge now or stall (if budget)
			type choice struct{ inOffer, outAck []bool }
			var choices []choice
			var rec func(k int, cur choice)
			rec = func(k int, cur choice) {
				if k == nin+nout {
					choices = append(choices, choice{append([]bool{}, cur.inOffer...), append([]bool{}, cur.outAck...)})
					return
				}
				if k < nin {
					if n.env.inPhase[k] == 0 && int(n.env.inN[k]) < horizon {
						cur.inOffer[k] = true
						rec(k+1, cur)
						if int(n.env.inStall[k]) < stalls {
							cur.inOffer[k] = false
							rec(k+1, cur)
						}
					} else {
						cur.inOffer[k] = false
						rec(k+1, cur)
					}
					return
				}
				o := k - nin
				if n.env.outPhase[o] == 0 && n.outValid[o] {
					cur.outAck[o] = true
					rec(k+1, cur)
					if int(n.env.outStall[o]) < stalls {
						cur.outAck[o] = false
						rec(k+1, cur)
					}
				} else {
					cur.outAck[o] = false
					rec(k+1, cur)
				}
			}
			rec(0, choice{make([]bool, nin), make([]bool, nout)})
			var edges []xs.Edge[bnode]
			for _, ch := range choices {
				env := n.env.clone()
				label := ""
				// drive lines according to the environment automata
				inValid := make([]bool, nin)
				inData := make([]uint64, nin)
				outRecv := make([]bool, nout)
				for k := 0; k < nin; k++ {
					switch env.inPhase[k] {
					case 0:
						if ch.inOffer[k] {
							env.inPhase[k] = 1
							label += "O"
						} else {
							if int(env.inN[k]) < horizon {
								env.inStall[k]++
								label += "s"
							} else {
								label += "-"
							}
						}
					}
					if env.inPhase[k] == 1 {
						inValid[k] = true
						inData[k] = inputValue(k, int(env.inN[k]))
					}
				}
				for o := 0; o < nout; o++ {
					if env.outPhase[o] == 0 && n.outValid[o] {
						if ch.outAck[o] {
							// the value on the port is delivered now
							idx := int(env.outN[o])
							if idx >= len(ref[o]) {
								addViol("extra-value", fmt.Sprintf("output o%d delivers a value (%d) beyond the %d expected", o, n.outData[o], len(ref[o])), append(ex.Path(id), label+"A"))
							} else if n.outData[o] != ref[o][idx] {
								cl := "wrong-value"
								if idx > 0 && n.outData[o] == ref[o][idx-1] {
									cl = "duplicated-value"
								} else if idx+1 < len(ref[o]) && n.outData[o] == ref[o][idx+1] {
									cl = "skipped-value"
								}
								addViol(cl, fmt.Sprintf("output o%d delivers %d as value #%d, dataflow reference says %d (reference stream %v)", o, n.outData[o], idx, ref[o][idx], ref[o]), append(ex.Path(id), label+"A"))
							}
							env.outN[o]++
							env.outPhase[o] = 1
							label += "A"
						} else {
							env.outStall[o]++
							label += "w"
						}
					} else {
						label += "."
					}
					if env.outPhase[o] == 1 {
						outRecv[o] = true
					}
				}
				var nx bnode
				nx.env = env
				nx.inRecv = make([]bool, nin)
				nx.outValid = make([]bool, nout)
				nx.outData = make([]uint64, nout)
				if backend == "hdl" {
					if err := w.h.Sim.RestoreKey(n.hdl); err != nil {
						panic(err)
					}
					for k := 0; k < nin; k++ {
						w.h.Sim.Set(w.h.In[k], inData[k])
						w.h.Sim.Set(w.h.InValid[k], b2u(inValid[k]))
					}
					for o := 0; o < nout; o++ {
						w.h.Sim.Set(w.h.OutRecv[o], b2u(outRecv[o]))
					}
					if err := w.h.Tick(); err != nil {
						addViol("hdl-error", err.Error(), ex.Path(id))
						continue
					}
					for k := 0; k < nin; k++ {
						nx.inRecv[k] = w.h.Sim.Get(w.h.InRecv[k]) != 0
					}
					for o := 0; o < nout; o++ {
						nx.outValid[o] = w.h.Sim.Get(w.h.OutValid[o]) != 0
						nx.outData[o] = w.h.Sim.Get(w.h.Out[o])
					}
					nx.hdl = append([]byte{}, w.h.Sim.StateKey(nil)...)
					nx.bk = string(nx.hdl)
				} else {
					w.s.Restore(n.sim)
					for k := 0; k < nin; k++ {
						w.s.VM.Inputs_regs[k] = uint8(inData[k])
						w.s.VM.InputsValid[k] = inValid[k]
					}
					for o := 0; o < nout; o++ {
						w.s.VM.OutputsRecv[o] = outRecv[o]
					}
					if err := w.s.Step(); err != nil {
						addViol("sim-error", err.Error(), ex.Path(id))
						continue
					}
					for k := 0; k < nin; k++ {
						nx.inRecv[k] = w.s.VM.InputsRecv[k]
					}
					for o := 0; o < nout; o++ {
						nx.outValid[o] = w.s.VM.OutputsValid[o]
						nx.outData[o] = bmsys.U64(w.s.VM.Outputs_regs[o])
					}
					nx.sim = w.s.Snapshot()
					nx.bk = bmsys.Key(nx.sim)
				}
				// environment automata react to what they now observe
				for k := 0; k < nin; k++ {
					switch nx.env.inPhase[k] {
					case 1:
						if nx.inRecv[k] {
							nx.env.inPhase[k] = 2
							nx.env.inN[k]++
						}
					case 2:
						if !nx.inRecv[k] {
							nx.env.inPhase[k] = 0
						}
					}
				}
				for o := 0; o < nout; o++ {
					if nx.env.outPhase[o] == 1 && !nx.outValid[o] {
						nx.env.outPhase[o] = 0
					}
				}
				edges = append(edges, xs.Edge[bnode]{Label: label, Next: nx})
			}
			return edges
		},
	}
	var init bnode
	init.env = envState{make([]uint8, nin), make([]uint8, nin), make([]uint8, nin), make([]uint8, nout), make([]uint8, nout), make([]uint8, nout)}
	init.inRecv = make([]bool, nin)
	init.outValid = make([]bool, nout)
	init.outData = make([]uint64, nout)
	if backend == "hdl" {
		init.hdl = h0.Initial
		init.bk = string(h0.Initial)
	} else {
		s, _ := bmsys.NewSIMDelays(bm, false, delays)
		init.sim = s.Snapshot()
		init.bk = bmsys.Key(init.sim)
	}
	ex.Run(init)
	out.states, out.transitions, out.depth = ex.States, ex.Transitions, ex.Depth
	out.closed = ex.Closed()
	out.capHit = ex.CapHit
	if out.closed && len(out.violations) == 0 {
		n := len(ex.Graph)
		rev := make([][]int32, n)
		good := make([]bool, n)
		var queue []int32
		for from, es := range ex.Graph {
			if isDone(ex.StateOf(from).env) {
				good[from] = true
				queue = append(queue, int32(from))
				out.delivered++
			}
			for _, e := range es {
				rev[e.To] = append(rev[e.To], int32(from))
			}
		}
		for len(queue) > 0 {
			x := queue[0]
			queue = queue[1:]
			for _, p := range rev[x] {
				if !good[p] {
					good[p] = true
					queue = append(queue, p)
				}
			}
		}
		for i := 0; i < n; i++ {
			if !good[i] {
				out.stuckStates++
				if out.stuckSample == nil {
					out.stuckSample = ex.Path(i)
				}
			}
		}
	}
	return out
}

func b2u(b bool) uint64 {
	if b {
		return 1
	}
	return 0
}

func families(thorough bool) []dfGraph {
	gs := []dfGraph{
		{Name: "pipe1", Procs: []dfProc{{In: []string{"i0"}, Out: 1}}, ExtIn: 1, ExtOut: []string{"p0o0"}},
		{Name: "pipe2", Procs: []dfProc{{In: []string{"i0"}, Out: 1}, {In: []string{"p0o0"}, Out: 1}}, ExtIn: 1, ExtOut: []string{"p1o0"}},
		{Name: "join", Procs: []dfProc{{In: []string{"i0", "i1"}, Out: 1}}, ExtIn: 2, ExtOut: []string{"p0o0"}},
		{Name: "fanout-ext", Procs: []dfProc{{In: []string{"i0"}, Out: 1}}, ExtIn: 1, ExtOut: []string{"p0o0", "p0o0"}},
		{Name: "two-outputs", Procs: []dfProc{{In: []string{"i0"}, Out: 2}}, ExtIn: 1, ExtOut: []string{"p0o0", "p0o1"}},
		{Name: "ext-through", Procs: []dfProc{{In: []string{"i0"}, Out: 1}}, ExtIn: 1, ExtOut: []string{"p0o0", "i0"}},
		// processors whose input and output selectors have different widths (3 ports need 2 bits, 1-2 ports need 1)
		{Name: "join3", Procs: []dfProc{{In: []string{"i0", "i1", "i2"}, Out: 1}}, ExtIn: 3, ExtOut: []string{"p0o0"}},
		{Name: "three-outputs", Procs: []dfProc{{In: []string{"i0"}, Out: 3}}, ExtIn: 1, ExtOut: []string{"p0o0", "p0o1", "p0o2"}},
		// a join whose two inputs come from other PROCESSORS (their valid lines fall when those processors move on,
		// not when the environment decides)
		// processors SHARING a domain: p0 and p1 are instances of domain 0 (one input, one output), p2 of domain 1
		// (one input, two outputs); and the same with the domains numbered the other way round
		{Name: "pipe3-shared-domain", Procs: []dfProc{{In: []string{"i0"}, Out: 1}, {In: []string{"p0o0"}, Out: 1}, {In: []string{"p1o0"}, Out: 2}}, ExtIn: 1, ExtOut: []string{"p2o0", "p2o1"}, DomainOf: []int{0, 0, 1}},
		{Name: "pipe3-shared-domain-permuted", Procs: []dfProc{{In: []string{"i0"}, Out: 2}, {In: []string{"p0o0"}, Out: 1}, {In: []string{"p1o0"}, Out: 1}}, ExtIn: 1, ExtOut: []string{"p2o0", "p0o1"}, DomainOf: []int{1, 0, 0}},
		{Name: "join-of-pipes", Procs: []dfProc{{In: []string{"i0"}, Out: 1}, {In: []string{"i1"}, Out: 1}, {In: []string{"p0o0", "p1o0"}, Out: 1}}, ExtIn: 2, ExtOut: []string{"p2o0"}},
	}
	if thorough {
		gs = append(gs,
			dfGraph{Name: "fanout-procs", Procs: []dfProc{{In: []string{"i0"}, Out: 1}, {In: []string{"p0o0"}, Out: 1}, {In: []string{"p0o0"}, Out: 1}}, ExtIn: 1, ExtOut: []string{"p1o0", "p2o0"}},
			dfGraph{Name: "diamond", Procs: []dfProc{{In: []string{"i0"}, Out: 2}, {In: []string{"p0o0"}, Out: 1}, {In: []string{"p0o1"}, Out: 1}, {In: []string{"p1o0", "p2o0"}, Out: 1}}, ExtIn: 1, ExtOut: []string{"p3o0"}},
			dfGraph{Name: "pipe3", Procs: []dfProc{{In: []string{"i0"}, Out: 1}, {In: []string{"p0o0"}, Out: 1}, {In: []string{"p1o0"}, Out: 1}}, ExtIn: 1, ExtOut: []string{"p2o0"}},
		)
	}
	return gs
}

func labelsString(p []string) string { return strings.Join(p, " ") }
