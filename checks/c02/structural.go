package main

// C02 (a): the generated top-level netlist connects exactly the endpoints named by the bonds and an
// output's received line is the conjunction of the received lines of all inputs bonded to it.
// Exhaustive over bond graphs; measured on the real generated file set by poking the producers'
// driving registers / top-level inputs and reading what arrives at every consumer after the
// combinational logic settles (no clock involved).

import (
	"fmt"
	"strconv"
	"strings"

	"verif/engines/vsim"
	"verif/lib/bmgen"

	"github.com/BondMachineHQ/BondMachine/pkg/bondmachine"
)

type graph struct {
	Shapes [][2]int `json:"shapes"` // per processor (N, M)
	ExtIn  int      `json:"ext_in"`
	ExtOut int      `json:"ext_out"`
	Links  []int    `json:"links"` // per internal input (construction order) -1 or internal output index
	// IOFirst: the external inputs and outputs are created before the processors (both orders are legal
	// through the API and through bondmachine's CLI; the endpoint lists then come in a different order)
	IOFirst bool `json:"io_first,omitempty"`
	// Commented: the netlist is generated with the CommentedVerilog option (bondmachine -comment-verilog),
	// which must only add comments: the netlist a tool reads after the comments are dropped is the same netlist
	Commented bool `json:"commented,omitempty"`
}

func (g graph) String() string {
	o := ""
	if g.IOFirst {
		o = " io-first"
	}
	if g.Commented {
		o += " commented-verilog"
	}
	return fmt.Sprintf("procs=%v in=%d out=%d links=%v%s", g.Shapes, g.ExtIn, g.ExtOut, g.Links, o)
}

// build through the real API. Construction order: processors first (or last, IOFirst), external inputs, then
// external outputs; returns the machine plus consumer/producer endpoint names in Links order.
func (g graph) build() (*bondmachine.Bondmachine, []string, []string, error) {
	b := new(bondmachine.Bondmachine)
	b.Rsize = 8
	b.Init()
	addIO := func() {
		for i := 0; i < g.ExtIn; i++ {
			b.Add_input()
		}
		for i := 0; i < g.ExtOut; i++ {
			b.Add_output()
		}
	}
	if g.IOFirst {
		addIO()
	}
	for _, sh := range g.Shapes {
		ops := []string{"j", "nop"}
		if sh[0] > 0 {
			ops = append(ops, "i2rw")
		}
		if sh[1] > 0 {
			ops = append(ops, "r2owa")
		}
		m, err := bmgen.NewMachine(bmgen.ArchSpec{Rsize: 8, R: 1, N: uint8(sh[0]), M: uint8(sh[1]), O: 1, Ops: ops})
		if err != nil {
			return nil, nil, nil, err
		}
		prog, err := m.Arch.Assembler([]byte("nop\nj 0\n"))
		if err != nil {
			return nil, nil, nil, err
		}
		m.Program = prog
		b.Domains = append(b.Domains, m)
		b.Add_processor(len(b.Domains) - 1)
	}
	if !g.IOFirst {
		addIO()
	}
	cons := b.List_internal_inputs()
	prods := b.List_internal_outputs()
	if len(cons) != len(g.Links) {
		return nil, nil, nil, fmt.Errorf("graph has %d links for %d consumers", len(g.Links), len(cons))
	}
	for i, l := range g.Links {
		if l >= 0 {
			b.Add_bond([]string{cons[i], prods[l]})
		}
	}
	return b, cons, prods, nil
}

type netFail struct{ class, detail string }

func parseEndpoint(name string) (proc int, kind byte, idx int) {
	// i3 / o2 / p1i0 / p2o1
	if name[0] == 'p' {
		rest := name[1:]
		k := strings.IndexAny(rest, "io")
		proc, _ = strconv.Atoi(rest[:k])
		kind = rest[k]
		idx, _ = strconv.Atoi(rest[k+1:])
		return
	}
	proc = -1
	kind = name[0]
	idx, _ = strconv.Atoi(name[1:])
	return
}

func checkNetlist(g graph) (fails []netFail, notSim string) {
	b, cons, prods, err := g.build()
	if err != nil {
		return nil, err.Error()
	}
	conf := new(bondmachine.Config)
	conf.CommentedVerilog = g.Commented
	files, err := bmgen.RenderFiles(b, conf, "iverilog")
	if err != nil {
		return nil, err.Error()
	}
	d, diags := vsim.Parse(files)
	for _, dg := range diags {
		return []netFail{{"verilog-" + dg.Class, fmt.Sprintf("%s:%d %s", dg.File, dg.Line, dg.Msg)}}, ""
	}
	sim, err := d.Elaborate("bondmachine", nil)
	if err != nil {
		return []netFail{{"verilog-elaborate", err.Error()}}, ""
	}
	if err := sim.Init(); err != nil {
		return []netFail{{"verilog-init", err.Error()}}, ""
	}
	look := func(n string) (vsim.SigID, bool) { return sim.Lookup(n) }
	type pins struct{ data, valid, recv vsim.SigID }
	missing := ""
	get := func(n string) vsim.SigID {
		id, ok := look(n)
		if !ok && missing == "" {
			missing = n
		}
		return id
	}
	// producer side: what we drive (data, valid) and where we read the returning received
	pp := make([]pins, len(prods))
	for i, e := range prods {
		p, _, idx := parseEndpoint(e)
		if p < 0 {
			n := "i" + strconv.Itoa(idx)
			pp[i] = pins{get(n), get(n + "_valid"), get(n + "_received")}
		} else {
			pre := fmt.Sprintf("a%d_inst.p%d_instance.", p, p)
			pp[i] = pins{get(pre + "_auxo" + strconv.Itoa(idx)), get(pre + "o" + strconv.Itoa(idx) + "_val"), get(pre + "o" + strconv.Itoa(idx) + "_received")}
		}
	}
	// consumer side: where we read (data, valid) and what we drive as received
	cp := make([]pins, len(cons))
	for i, e := range cons {
		p, _, idx := parseEndpoint(e)
		if p < 0 {
			n := "o" + strconv.Itoa(idx)
			cp[i] = pins{get(n), get(n + "_valid"), get(n + "_received")}
		} else {
			pre := fmt.Sprintf("a%d_inst.p%d_instance.", p, p)
			cp[i] = pins{get(pre + "i" + strconv.Itoa(idx)), get(pre + "i" + strconv.Itoa(idx) + "_valid"), get(pre + "i" + strconv.Itoa(idx) + "_recv")}
		}
	}
	if missing != "" {
		return nil, "signal " + missing + " not found"
	}
	val := func(i int) uint64 { return uint64((i+1)*37) & 0xff }
	settle := func() bool {
		if err := sim.Settle(); err != nil {
			fails = append(fails, netFail{"verilog-settle", err.Error()})
			return false
		}
		return true
	}
	// A: data and valid. pattern v = -1: all valid; v >= 0: only producer v valid
	for v := -1; v < len(prods); v++ {
		for i := range prods {
			sim.Set(pp[i].data, val(i))
			on := uint64(0)
			if v == -1 || v == i {
				on = 1
			}
			sim.Set(pp[i].valid, on)
		}
		if !settle() {
			return
		}
		for c, l := range g.Links {
			gd, gv := sim.Get(cp[c].data), sim.Get(cp[c].valid)
			if l < 0 {
				if gd != 0 || gv != 0 {
					fails = append(fails, netFail{"unbonded-input-driven", fmt.Sprintf("%s is not bonded but reads data=%d valid=%d", cons[c], gd, gv)})
				}
				continue
			}
			wv := uint64(0)
			if v == -1 || v == l {
				wv = 1
			}
			if gd != val(l) {
				fails = append(fails, netFail{"data-misrouted", fmt.Sprintf("%s is bonded to %s but reads data %d instead of %d", cons[c], prods[l], gd, val(l))})
			}
			if gv != wv {
				fails = append(fails, netFail{"valid-misrouted", fmt.Sprintf("%s is bonded to %s but reads valid=%d instead of %d (pattern %d)", cons[c], prods[l], gv, wv, v)})
			}
		}
	}
	// B: received = AND over the consumers of each producer, independent of every other consumer
	for p := range prods {
		var cs []int
		for c, l := range g.Links {
			if l == p {
				cs = append(cs, c)
			}
		}
		for others := uint64(0); others <= 1; others++ {
			for mask := 0; mask < 1<<len(cs); mask++ {
				for c := range cons {
					sim.Set(cp[c].recv, others)
				}
				and := uint64(1)
				for k, c := range cs {
					bit := uint64(mask >> k & 1)
					sim.Set(cp[c].recv, bit)
					and &= bit
				}
				if !settle() {
					return
				}
				got := sim.Get(pp[p].recv)
				want := and
				if len(cs) == 0 {
					want = 0
				}
				if got != want {
					cl := "received-not-conjunction"
					if len(cs) == 0 {
						cl = "unbonded-output-received-driven"
					}
					names := []string{}
					for _, c := range cs {
						names = append(names, cons[c])
					}
					fails = append(fails, netFail{cl, fmt.Sprintf("%s_received=%d, expected %d for consumers %v with received mask %b (all other consumers at %d)", prods[p], got, want, names, mask, others)})
				}
			}
		}
	}
	return
}

// enumerate all graphs with the given processor shapes and external port counts
func enumGraphs(shapes [][2]int, extIn, extOut int, emit func(graph)) {
	ncons, nprod := extOut, extIn
	for _, s := range shapes {
		ncons += s[0]
		nprod += s[1]
	}
	links := make([]int, ncons)
	var rec func(i int)
	rec = func(i int) {
		if i == ncons {
			emit(graph{Shapes: shapes, ExtIn: extIn, ExtOut: extOut, Links: append([]int{}, links...)})
			if extIn+extOut > 0 {
				emit(graph{Shapes: shapes, ExtIn: extIn, ExtOut: extOut, Links: append([]int{}, links...), IOFirst: true})
			}
			emit(graph{Shapes: shapes, ExtIn: extIn, ExtOut: extOut, Links: append([]int{}, links...), Commented: true})
			return
		}
		for l := -1; l < nprod; l++ {
			links[i] = l
			rec(i + 1)
		}
	}
	rec(0)
}
