// C02 — a whole BondMachine behaves the same in generated HDL as in simulation, and the generated
// top-level netlist connects exactly the endpoints named by the bonds (see structural.go and
// behavioural.go for the two obligations).
package main

import (
	"fmt"
	"os"
	"runtime"
	"sort"
	"strings"
	"sync"

	"verif/lib/vlib"
)

func main() {
	run := vlib.Start("C02", "model_checking")
	if run.Replay != "" {
		doReplay(run)
		return
	}
	// ---- (a) structural, exhaustive over graphs ------------------------------------------------
	type shapeSet struct {
		shapes        [][2]int
		extIn, extOut int
	}
	var sets []shapeSet
	arche := [][2]int{{1, 1}, {2, 1}, {1, 2}}
	for _, a := range arche {
		for in := 0; in <= 2; in++ {
			for o := 0; o <= 2; o++ {
				sets = append(sets, shapeSet{[][2]int{a}, in, o})
			}
		}
	}
	for _, a := range arche {
		for _, b := range arche {
			if run.Thorough() {
				for in := 0; in <= 2; in++ {
					for o := 0; o <= 2; o++ {
						sets = append(sets, shapeSet{[][2]int{a, b}, in, o})
					}
				}
			} else {
				sets = append(sets, shapeSet{[][2]int{a, b}, 1, 1})
			}
		}
	}
	if run.Thorough() {
		sets = append(sets, shapeSet{[][2]int{{1, 1}, {1, 1}, {1, 1}}, 1, 1}, shapeSet{[][2]int{{2, 1}, {1, 1}, {1, 2}}, 1, 1})
	} else {
		sets = append(sets, shapeSet{[][2]int{{1, 1}, {1, 1}, {1, 1}}, 0, 1})
	}
	graphs := make(chan graph, 1024)
	var wg sync.WaitGroup
	var mu sync.Mutex
	nGraphs, nBonded, notSim := 0, 0, 0
	distinctFanout := map[int]int{}
	for w := 0; w < runtime.NumCPU(); w++ {
		wg.Add(1)
		go func() {
			defer wg.Done()
			for g := range graphs {
				fails, ns := checkNetlist(g)
				mu.Lock()
				nGraphs++
				if ns != "" {
					notSim++
					if notSim <= 3 {
						fmt.Fprintf(os.Stderr, "note: graph %s not simulable: %s\n", g, ns)
					}
				}
				bonded := 0
				fo := map[int]int{}
				for _, l := range g.Links {
					if l >= 0 {
						bonded++
						fo[l]++
					}
				}
				if bonded > 0 {
					nBonded++
				}
				mx := 0
				for _, c := range fo {
					if c > mx {
						mx = c
					}
				}
				distinctFanout[mx]++
				mu.Unlock()
				seen := map[string]bool{}
				for _, f := range fails {
					if seen[f.class] {
						continue
					}
					seen[f.class] = true
					run.Report("C02|netlist|"+f.class, fmt.Sprintf("[%s] %s", g, f.detail), map[string]any{"kind": "netlist", "graph": g})
				}
				if nGraphs%5000 == 1 {
					run.Sample(fmt.Sprintf("netlist graph: %s", g))
				}
			}
		}()
	}
	for _, s := range sets {
		enumGraphs(s.shapes, s.extIn, s.extOut, func(g graph) { graphs <- g })
	}
	close(graphs)
	wg.Wait()
	run.Set("netlist_graphs", nGraphs)
	run.Set("netlist_graphs_with_bonds", nBonded)
	run.Set("netlist_graphs_not_simulable", notSim)
	run.Set("netlist_graphs_by_max_fanout", distinctFanout)
	// every graph is one state of the configuration space, every poke/settle pattern one transition
	run.Add("states", nGraphs)
	run.Add("transitions", nGraphs)
	run.Add("traces_validated_against_impl", nGraphs)

	// ---- (b) behavioural ------------------------------------------------------------------------
	horizon, stalls, maxStates := 3, 3, 300000
	if run.Thorough() {
		horizon, stalls, maxStates = 4, 5, 3000000
	}
	type job struct {
		g       dfGraph
		backend string
	}
	var jobs []job
	for _, g := range families(run.Thorough()) {
		jobs = append(jobs, job{g, "hdl"}, job{g, "sim"})
		// the simulator with one slow opcode, on the families with processor-to-processor bonds
		if g.Name == "pipe2" || g.Name == "join-of-pipes" || (run.Thorough() && (g.Name == "pipe3" || g.Name == "diamond")) {
			for _, d := range []string{"inc=2", "inc=4", "i2rw=3", "r2owa=3", "add=3", "j=3"} {
				jobs = append(jobs, job{g, "sim+delay(" + d + ")"})
			}
		}
	}
	outs := make([]bOutcome, len(jobs))
	sem := make(chan struct{}, 6)
	for i, j := range jobs {
		wg.Add(1)
		sem <- struct{}{}
		go func(i int, j job) {
			defer wg.Done()
			defer func() { <-sem }()
			outs[i] = exploreBehaviour(j.g, j.backend, horizon, stalls, maxStates)
		}(i, j)
	}
	wg.Wait()
	var per []map[string]any
	allClosed := true
	for _, o := range outs {
		run.Add("states", o.states)
		run.Add("transitions", o.transitions)
		run.Add("traces_validated_against_impl", o.transitions)
		per = append(per, map[string]any{"graph": o.g.Name, "backend": o.backend, "states": o.states, "transitions": o.transitions, "depth": o.depth,
			"closed": o.closed, "cap_hit": o.capHit, "terminal_states_all_delivered": o.delivered, "states_that_cannot_finish": o.stuckStates, "not_simulable": o.notSimulable})
		if o.notSimulable != "" {
			// every family is built to be simulable on both back ends: a generated file set that does not elaborate (or a
			// machine the simulator cannot start) is a failure of the generators, not a reason to skip
			fmt.Fprintf(os.Stderr, "note: %s/%s not simulable: %s\n", o.g.Name, o.backend, o.notSimulable)
			run.Report(fmt.Sprintf("C02|stream|%s|not-simulable", sigBackend(o.backend)),
				fmt.Sprintf("[graph %s, %s back end] the machine cannot be run: %s", o.g.Name, o.backend, o.notSimulable),
				map[string]any{"kind": "stream", "graph": o.g, "backend": o.backend, "horizon": horizon, "stalls": stalls})
			continue
		}
		if !o.closed {
			allClosed = false
		}
		fo := "fan-out=1"
		if o.g.fanout() > 1 {
			fo = "fan-out>1"
		}
		keys := make([]string, 0, len(o.violations))
		for k := range o.violations {
			keys = append(keys, k)
		}
		sort.Strings(keys)
		for _, k := range keys {
			v := o.violations[k]
			run.Report(fmt.Sprintf("C02|stream|%s|%s|%s", sigBackend(o.backend), fo, v.class),
				fmt.Sprintf("[graph %s, %s back end] %s; environment schedule per tick (inputs: O offer / s stall, outputs: A ack / w wait): %s", o.g.Name, o.backend, v.detail, labelsString(v.path)),
				map[string]any{"kind": "stream", "graph": o.g, "backend": o.backend, "schedule": v.path, "horizon": horizon, "stalls": stalls})
		}
		if o.stuckStates > 0 {
			run.Report(fmt.Sprintf("C02|stream|%s|%s|cannot-finish", sigBackend(o.backend), fo),
				fmt.Sprintf("[graph %s, %s back end] %d reachable states from which the remaining values can never be delivered; shortest: %s", o.g.Name, o.backend, o.stuckStates, labelsString(o.stuckSample)),
				map[string]any{"kind": "stream", "graph": o.g, "backend": o.backend, "schedule": o.stuckSample, "horizon": horizon, "stalls": stalls})
		}
		if len(o.violations) == 0 && o.closed {
			run.Sample(fmt.Sprintf("stream %s/%s: closure, %d states, %d transitions, reference %v", o.g.Name, o.backend, o.states, o.transitions, o.g.reference(horizon)))
		}
	}
	run.Set("stream_explorations", per)
	run.Set("stream_bounds", map[string]int{"values_per_input": horizon, "stalls_per_port": stalls})
	run.Set("exhaustive", allClosed)
	run.Assume("netlist obligation: measured combinationally on the real file set (processors with i2rw/r2owa) by driving each producer's data/valid registers and each consumer's received register")
	run.Assume("stream obligation: both back ends are compared with a timing-independent dataflow reference (each firing consumes one value per input, emits sum+1 on every output); equality with the same reference implies equality with each other")
	run.Assume("environment is protocol abiding (4-phase valid/received) with a bounded number of delays per port; HDL semantics by /verif/engines/vsim")
	run.Finish()
}

// sigBackend: the signature names the back end, not the particular delay assignment.
func sigBackend(b string) string {
	if strings.Contains(b, "+delay(") {
		return "sim,opcode-delays"
	}
	return b
}

func doReplay(run *vlib.Run) {
	var rp struct {
		Kind  string `json:"kind"`
		Graph graph  `json:"graph"`
	}
	if _, err := vlib.LoadReplay(run.Replay, &rp); err != nil {
		panic(err)
	}
	if rp.Kind == "netlist" {
		fails, ns := checkNetlist(rp.Graph)
		fmt.Println("graph:", rp.Graph, "not simulable:", ns)
		for _, f := range fails {
			fmt.Printf("  %s: %s\n", f.class, f.detail)
			run.Report("C02|netlist|"+f.class, f.detail, rp)
		}
		run.Set("states", 1)
		run.Set("transitions", 1)
		run.Set("traces_validated_against_impl", 1)
		run.Finish()
		return
	}
	var rs struct {
		Graph   dfGraph `json:"graph"`
		Backend string  `json:"backend"`
		Horizon int     `json:"horizon"`
		Stalls  int     `json:"stalls"`
	}
	vlib.LoadReplay(run.Replay, &rs)
	o := exploreBehaviour(rs.Graph, rs.Backend, rs.Horizon, rs.Stalls, 3000000)
	for k, v := range o.violations {
		fmt.Printf("  %s: %s\n    schedule: %s\n", k, v.detail, labelsString(v.path))
		run.Report("C02|stream|"+rs.Backend+"|replay|"+k, v.detail, rs)
	}
	run.Set("states", o.states)
	run.Set("transitions", o.transitions)
	run.Set("traces_validated_against_impl", o.transitions)
	run.Finish()
}
