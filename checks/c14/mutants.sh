#!/bin/bash
# Detection demo for C14: builds property-breaking copies of /repo files in a scratch dir (never edits /repo)
# and runs the quick tier against each through VERIF_OVERLAY. usage: checks/c14/mutants.sh [mutant ...]
set -u
cd /verif && . /verif/env.sh
d=$(mktemp -d /tmp/c14mut.XXXXXX)
trap 'rm -rf "$d"' EXIT
python3 - "$d" <<'EOF'
import sys, json
d = sys.argv[1]
Q = '/repo/pkg/bmqsim/bmqsim.go'
M = '/repo/pkg/bmmatrix/static2x2.go'
def emit(name, path, old, new, extra=None):
    src = open(path).read()
    assert old in src, name
    s = src.replace(old, new, 1)
    if extra:
        assert extra[0] in s, name
        s = s.replace(extra[0], extra[1], 1)
    open(f'{d}/{name}.go', 'w').write(s)
    json.dump({"Replace": {path: f'{d}/{name}.go'}}, open(f'{d}/{name}.json', 'w'))
# a1: s1/s2 swapped everywhere in swaps2baseSwaps -- EQUIVALENT mutant (the function is symmetric in s1,s2)
emit('a1', Q, "\ts1 := s.s1\n\ts2 := s.s2\n", "\ts1 := s.s2\n\ts2 := s.s1\n")
# a2: s1/s2 swapped in the masks of swaps2baseSwaps only
emit('a2', Q, "\tmask1 := uint64(max >> s1)\n\tmask2 := uint64(max >> s2)\n", "\tmask1 := uint64(max >> s2)\n\tmask2 := uint64(max >> s1)\n")
# b: the swap made for a reversed argument order is not recorded, hence never undone
emit('b', Q, "\t\t\t\t\t\tswaps = append(swaps, swap{q, lq})\n", "\t\t\t\t\t\tif i != 0 {\n\t\t\t\t\t\t\tswaps = append(swaps, swap{q, lq})\n\t\t\t\t\t\t}\n")
# c: a new matrix is started only when ALL (both) qubits of the line are reused
emit('c', Q, '''				if _, ok := curQBits[qbitN]; ok {
					nextOp = true
					break
				} else {
					curQBits[sim.qbitsNum[argName]] = struct{}{}
				}
			}

		}
''', '''				totalQ++
				if _, ok := curQBits[qbitN]; ok {
					reusedQ++
				} else {
					curQBits[sim.qbitsNum[argName]] = struct{}{}
				}
			}

		}
		if totalQ > 0 && reusedQ == totalQ {
			nextOp = true
		}
''', ("\t\tnextOp := false\n", "\t\tnextOp := false\n\t\ttotalQ, reusedQ := 0, 0\n"))
# d: non-unitary Hadamard
emit('d', M, "m.Data[1][1] = Complex32{-1.0 / SQRT2, 0.0}", "m.Data[1][1] = Complex32{1.0 / SQRT2, 0.0}")
# e: software simulation applies the matrices in reverse order
emit('e', Q, "\t\tfor j, mtx := range sim.Mtx {\n", "\t\tfor j := len(sim.Mtx) - 1; j >= 0; j-- {\n\t\t\tmtx := sim.Mtx[j]\n")
EOF
[ $# -eq 0 ] && set -- a1 a2 b c d e
for m in "$@"; do
  echo "=== mutant $m"
  VERIF_OVERLAY=$d/$m.json /verif/run.sh C14 quick 2>&1 | grep -E "signature:|tier=|BUILD"
done
echo "(replay files written for mutant-only signatures under /verif/replays/C14 can be deleted)"
