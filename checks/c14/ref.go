// Reference model for C14: a boring complex128 n-qubit unitary built by applying every gate, in program
// order, to the named qubits with the textbook matrix of the constructor the mnemonic is bound to.
package main

import (
	"math"
	"math/cmplx"
	"strconv"
	"strings"
)

// Conventions (FIXED once, from the code's single-gate behaviour, then checked everywhere):
//   - qubit significance: the first declared qubit is the MOST significant bit of the basis-state index
//     (bmqsim.BmMatrixFromOperation tensors the per-qubit factors left to right in declaration order and
//     bmmatrix.TensorProductComplex puts the left factor in the high bits);
//   - for a two-qubit gate `g a, b` the FIRST argument is the most significant bit of the 4x4 textbook
//     matrix (for `cx q0, q1` with q0,q1 adjacent ascending the code emits bmmatrix.CNot() unchanged,
//     i.e. first argument = control);
//   - product order: RunSoftwareSimulation applies Mtx[0] first (state = Mtx[j]*state for j=0,1,..), so
//     the circuit unitary is Mtx[k-1]*...*Mtx[0] (the same order cmd/bmqsim -show-circuit-matrix uses).

type gateDef struct {
	Canon string // canonical mnemonic = name of the constructor class
	Arity int    // number of qubit arguments
	Param bool   // takes an angle as last argument
	Mat   func(th float64) []complex128
}

var s2 = complex(1/math.Sqrt2, 0)

func e(th float64) complex128 { return cmplx.Exp(complex(0, th)) }

// textbook matrices, row-major
var gateDefs = map[string]*gateDef{
	"h":  {"h", 1, false, func(float64) []complex128 { return []complex128{s2, s2, s2, -s2} }},
	"x":  {"x", 1, false, func(float64) []complex128 { return []complex128{0, 1, 1, 0} }},
	"y":  {"y", 1, false, func(float64) []complex128 { return []complex128{0, -1i, 1i, 0} }},
	"z":  {"z", 1, false, func(float64) []complex128 { return []complex128{1, 0, 0, -1} }},
	"s":  {"s", 1, false, func(float64) []complex128 { return []complex128{1, 0, 0, 1i} }},
	"t":  {"t", 1, false, func(float64) []complex128 { return []complex128{1, 0, 0, e(math.Pi / 4)} }},
	"sx": {"sx", 1, false, func(float64) []complex128 { return []complex128{0.5 + 0.5i, 0.5 - 0.5i, 0.5 - 0.5i, 0.5 + 0.5i} }},
	"rx": {"rx", 1, true, func(t float64) []complex128 {
		c, s := complex(math.Cos(t/2), 0), complex(0, -math.Sin(t/2))
		return []complex128{c, s, s, c}
	}},
	"ry": {"ry", 1, true, func(t float64) []complex128 {
		c, s := complex(math.Cos(t/2), 0), complex(math.Sin(t/2), 0)
		return []complex128{c, -s, s, c}
	}},
	"rz": {"rz", 1, true, func(t float64) []complex128 { return []complex128{e(-t / 2), 0, 0, e(t / 2)} }},
	// `r` is bound to bmmatrix.PhaseShift: diag(1, e^{i theta})
	"r": {"r", 1, true, func(t float64) []complex128 { return []complex128{1, 0, 0, e(t)} }},
	// `phase` is bound to bmmatrix.GlobalPhase(2, theta): e^{i theta} * I on the named qubit = a global phase
	"phase": {"phase", 1, true, func(t float64) []complex128 { return []complex128{e(t), 0, 0, e(t)} }},
	"cx": {"cx", 2, false, func(float64) []complex128 {
		return []complex128{1, 0, 0, 0, 0, 1, 0, 0, 0, 0, 0, 1, 0, 0, 1, 0}
	}},
	"cz": {"cz", 2, false, func(float64) []complex128 {
		return []complex128{1, 0, 0, 0, 0, 1, 0, 0, 0, 0, 1, 0, 0, 0, 0, -1}
	}},
	"swap": {"swap", 2, false, func(float64) []complex128 {
		return []complex128{1, 0, 0, 0, 0, 0, 1, 0, 0, 1, 0, 0, 0, 0, 0, 1}
	}},
	"iswap": {"iswap", 2, false, func(float64) []complex128 {
		return []complex128{1, 0, 0, 0, 0, 0, 1i, 0, 0, 1i, 0, 0, 0, 0, 0, 1}
	}},
	// dcnot a,b = CNOT(a->b) then CNOT(b->a): |a,b> -> |b, a xor b>
	"dcnot": {"dcnot", 2, false, func(float64) []complex128 {
		m := make([]complex128, 16)
		for a := 0; a < 2; a++ {
			for b := 0; b < 2; b++ {
				m[(b*2+(a^b))*4+(a*2+b)] = 1
			}
		}
		return m
	}},
	// xnor a,b: |a,b> -> |a, not(a xor b)>
	"xnor": {"xnor", 2, false, func(float64) []complex128 {
		m := make([]complex128, 16)
		for a := 0; a < 2; a++ {
			for b := 0; b < 2; b++ {
				m[(a*2+(1-(a^b)))*4+(a*2+b)] = 1
			}
		}
		return m
	}},
}

// mnemonic -> canonical gate: the alias table of bmqsim.MatrixFromOp (the op is lower-cased first).
// `zero` and `input` are state-preparation pseudo operations (MatrixFromOp returns no matrix) and
// `nextop` is a separator: none of them is a gate, they are outside the property.
var mnemonics = [][2]string{
	{"h", "h"}, {"hadamard", "h"}, {"x", "x"}, {"paulix", "x"}, {"y", "y"}, {"pauliy", "y"}, {"z", "z"}, {"pauliz", "z"},
	{"cx", "cx"}, {"cnot", "cx"}, {"xor", "cx"}, {"s", "s"}, {"p", "s"}, {"v", "sx"}, {"sx", "sx"}, {"t", "t"},
	{"xnor", "xnor"}, {"cz", "cz"}, {"cphase", "cz"}, {"csign", "cz"}, {"cpf", "cz"}, {"dcnot", "dcnot"},
	{"swap", "swap"}, {"iswap", "iswap"}, {"phase", "phase"}, {"ph", "phase"}, {"r", "r"},
	{"rx", "rx"}, {"ry", "ry"}, {"rz", "rz"},
	// MatrixFromOp lower-cases the mnemonic
	{"H", "h"}, {"CX", "cx"}, {"RZ", "rz"}, {"ISwap", "iswap"},
}

var canonOrder = []string{"h", "x", "y", "z", "s", "t", "sx", "rx", "ry", "rz", "r", "phase", "cx", "cz", "swap", "iswap", "dcnot", "xnor"}

var angles = []float64{0, math.Pi / 2, math.Pi / 3, -math.Pi / 4}
var angleNames = []string{"0", "pi/2", "pi/3", "-pi/4"}

// inst is one gate applied to concrete qubits (one program line).
type inst struct {
	Mn    string
	Def   *gateDef
	Q     [2]int
	Theta float64
	G     []complex128
	Text  string // bmline.Text2BasmLine syntax
	Bmq   string // .bmq source syntax
}

func mkInst(mn, canon string, q [2]int, theta float64) *inst {
	d := gateDefs[canon]
	in := &inst{Mn: mn, Def: d, Q: q, Theta: theta, G: d.Mat(theta)}
	args := []string{"q" + strconv.Itoa(q[0])}
	if d.Arity == 2 {
		args = append(args, "q"+strconv.Itoa(q[1]))
	}
	if d.Param {
		args = append(args, strconv.FormatFloat(theta, 'g', -1, 64))
	}
	in.Text = mn + "::" + strings.Join(args, "::")
	in.Bmq = "\t" + mn + "\t" + strings.Join(args, ", ")
	return in
}

func placements(n, arity int) [][2]int {
	var out [][2]int
	if arity == 1 {
		for a := 0; a < n; a++ {
			out = append(out, [2]int{a, -1})
		}
		return out
	}
	for a := 0; a < n; a++ {
		for b := 0; b < n; b++ {
			if a != b {
				out = append(out, [2]int{a, b})
			}
		}
	}
	return out
}

// canonical alphabet: one mnemonic per constructor, every angle, every placement
func canonAlphabet(n int) []*inst {
	var out []*inst
	for _, c := range canonOrder {
		d := gateDefs[c]
		ths := []float64{0}
		if d.Param {
			ths = angles
		}
		for _, th := range ths {
			for _, q := range placements(n, d.Arity) {
				out = append(out, mkInst(c, c, q, th))
			}
		}
	}
	return out
}

// wide-angle alphabet: every parametric gate at every multiple of pi/6 in [-4pi, 4pi] plus a few angles far out
// (a rotation by theta+2pi is -1 times the rotation by theta: the angle is not periodic in 2pi), every placement
func wideAngles() []float64 {
	var a []float64
	for k := -24; k <= 24; k++ {
		a = append(a, float64(k)*math.Pi/6)
	}
	return append(a, 7.5, -7.5, 9.424778, 40, -100)
}

func wideAngleAlphabet(n int) []*inst {
	var out []*inst
	for _, c := range canonOrder {
		d := gateDefs[c]
		if !d.Param {
			continue
		}
		for _, th := range wideAngles() {
			for _, q := range placements(n, d.Arity) {
				out = append(out, mkInst(c, c, q, th))
			}
		}
	}
	return out
}

// alias alphabet: every other accepted spelling
func aliasAlphabet(n int) []*inst {
	var out []*inst
	for _, mc := range mnemonics {
		if mc[0] == mc[1] {
			continue
		}
		d := gateDefs[mc[1]]
		ths := []float64{0}
		if d.Param {
			ths = angles
		}
		for _, th := range ths {
			for _, q := range placements(n, d.Arity) {
				out = append(out, mkInst(mc[0], mc[1], q, th))
			}
		}
	}
	return out
}

func identity(dim int) []complex128 {
	u := make([]complex128, dim*dim)
	for i := 0; i < dim; i++ {
		u[i*dim+i] = 1
	}
	return u
}

// applyGate: dst = G_full * src, G acting on the qubits of in (n qubits, first declared = MSB)
func applyGate(dst, src []complex128, n int, in *inst) {
	dim := 1 << n
	copy(dst, src)
	g := in.G
	if in.Def.Arity == 1 {
		m := 1 << (n - 1 - in.Q[0])
		for r := 0; r < dim; r++ {
			if r&m != 0 {
				continue
			}
			r0, r1 := r*dim, (r|m)*dim
			for c := 0; c < dim; c++ {
				u0, u1 := src[r0+c], src[r1+c]
				dst[r0+c] = g[0]*u0 + g[1]*u1
				dst[r1+c] = g[2]*u0 + g[3]*u1
			}
		}
		return
	}
	ma, mb := 1<<(n-1-in.Q[0]), 1<<(n-1-in.Q[1])
	for r := 0; r < dim; r++ {
		if r&ma != 0 || r&mb != 0 {
			continue
		}
		idx := [4]int{r * dim, (r | mb) * dim, (r | ma) * dim, (r | ma | mb) * dim}
		for c := 0; c < dim; c++ {
			var u [4]complex128
			for k := 0; k < 4; k++ {
				u[k] = src[idx[k]+c]
			}
			for k := 0; k < 4; k++ {
				dst[idx[k]+c] = g[k*4]*u[0] + g[k*4+1]*u[1] + g[k*4+2]*u[2] + g[k*4+3]*u[3]
			}
		}
	}
}

func refUnitary(n int, seq []*inst) []complex128 {
	dim := 1 << n
	u := identity(dim)
	t := make([]complex128, dim*dim)
	for _, in := range seq {
		applyGate(t, u, n, in)
		u, t = t, u
	}
	return u
}
