// C14 — compiled quantum circuits implement the circuit's unitary.
//
// Bounded exhaustive exploration on the REAL code: for every circuit of the bounded universe the public path
// (bmline.BasmBody with meta `qbits` -> BmQSimulatorInit -> QasmToBmMatrices -> RunSoftwareSimulation) is
// executed and compared with a complex128 reference unitary (ref.go).
// Oracles: (emit) the compiler returns 2^n x 2^n matrices without error/panic; (unitarity) every emitted
// matrix M has ||M*M^dagger - I||_inf <= 1e-4; (product) Mtx[k-1]*...*Mtx[0] == U_ref entrywise within
// 1e-4*dim (exact, not up to a global phase); (simulation) RunSoftwareSimulation maps |k> to column k of U_ref.
package main

import (
	"fmt"
	"math"
	"math/cmplx"
	"os"
	"path/filepath"
	"runtime"
	"runtime/pprof"
	"sort"
	"strconv"
	"strings"
	"sync"
	"sync/atomic"
	"time"

	"verif/lib/vlib"

	"github.com/BondMachineHQ/BondMachine/pkg/bmbuilder"
	"github.com/BondMachineHQ/BondMachine/pkg/bmline"
	"github.com/BondMachineHQ/BondMachine/pkg/bmmatrix"
	"github.com/BondMachineHQ/BondMachine/pkg/bmqsim"
)

const (
	tolUnit = 1e-4
	tolEntr = 1e-4 // times dim
)

// ---- driver: the real code ----------------------------------------------------------------------------------

func qbitsMeta(n int) string {
	q := make([]string, n)
	for i := range q {
		q[i] = "q" + strconv.Itoa(i)
	}
	return strings.Join(q, ":")
}

func buildBody(n int, lines []string) (*bmline.BasmBody, error) {
	body := new(bmline.BasmBody)
	body.BasmMeta = body.SetMeta("qbits", qbitsMeta(n))
	for _, t := range lines {
		l, err := bmline.Text2BasmLine(t)
		if err != nil {
			return nil, err
		}
		body.Lines = append(body.Lines, l)
	}
	return body, nil
}

type realOut struct {
	Err  string
	Mats [][]complex128 // each dim*dim row-major
	Sim  [][]complex128 // Sim[k] = output state for input |k>
}

func toFlat(m *bmmatrix.BmMatrixSquareComplex, dim int) ([]complex128, string) {
	if m == nil {
		return nil, "nil matrix emitted"
	}
	if m.N != dim || len(m.Data) != dim {
		return nil, fmt.Sprintf("emitted matrix has size %d (Data rows %d), expected %d", m.N, len(m.Data), dim)
	}
	f := make([]complex128, dim*dim)
	for i := 0; i < dim; i++ {
		if len(m.Data[i]) != dim {
			return nil, fmt.Sprintf("emitted matrix row %d has %d columns, expected %d", i, len(m.Data[i]), dim)
		}
		for j := 0; j < dim; j++ {
			f[i*dim+j] = complex(float64(m.Data[i][j].Real), float64(m.Data[i][j].Imag))
		}
	}
	return f, ""
}

// runReal drives the public path exactly like cmd/bmqsim does after ExportBasmBody.
func runReal(n int, body *bmline.BasmBody) (out realOut) {
	defer func() {
		if r := recover(); r != nil {
			out.Err = fmt.Sprintf("panic: %v", r)
		}
	}()
	dim := 1 << n
	sim := new(bmqsim.BmQSimulator)
	sim.BmQSimulatorInit()
	mats, err := sim.QasmToBmMatrices(body)
	if err != nil {
		out.Err = "QasmToBmMatrices: " + err.Error()
		return
	}
	if len(mats) == 0 {
		out.Err = "QasmToBmMatrices emitted no matrix for a non-empty circuit"
		return
	}
	for _, m := range mats {
		f, e := toFlat(m, dim)
		if e != "" {
			out.Err = e
			return
		}
		out.Mats = append(out.Mats, f)
	}
	sim.Mtx = make([]*bmmatrix.BmMatrixSquareComplex, len(mats))
	copy(sim.Mtx, mats)
	if sim.StateSize() != dim {
		out.Err = fmt.Sprintf("StateSize()=%d expected %d", sim.StateSize(), dim)
		return
	}
	sim.Inputs = make([]bmqsim.StateArray, dim)
	for k := 0; k < dim; k++ {
		v := make([]bmmatrix.Complex32, dim)
		v[k] = bmmatrix.Complex32{Real: 1}
		sim.Inputs[k] = bmqsim.StateArray{Vector: v}
	}
	if err := sim.RunSoftwareSimulation(); err != nil {
		out.Err = "RunSoftwareSimulation: " + err.Error()
		return
	}
	if len(sim.Outputs) != dim {
		out.Err = fmt.Sprintf("RunSoftwareSimulation produced %d outputs for %d inputs", len(sim.Outputs), dim)
		return
	}
	for k := 0; k < dim; k++ {
		if len(sim.Outputs[k].Vector) != dim {
			out.Err = fmt.Sprintf("simulation output %d has %d amplitudes", k, len(sim.Outputs[k].Vector))
			return
		}
		s := make([]complex128, dim)
		for i, c := range sim.Outputs[k].Vector {
			s[i] = complex(float64(c.Real), float64(c.Imag))
		}
		out.Sim = append(out.Sim, s)
	}
	return
}

// ---- oracles ------------------------------------------------------------------------------------------------

type verdict struct {
	EmitErr  string
	NMat     int
	UnitBad  int // index of first non-unitary matrix, -1 if none
	UnitDev  float64
	ProdDev  float64
	ProdAt   [2]int
	SimDev   float64
	SimAt    [2]int // input k, amplitude i
	ProdFail bool
	SimFail  bool
}

func (v *verdict) failed() bool { return v.EmitErr != "" || v.UnitBad >= 0 || v.ProdFail || v.SimFail }

func unitDev(m []complex128, dim int) float64 {
	worst := 0.0
	for i := 0; i < dim; i++ {
		row := 0.0
		for j := 0; j < dim; j++ {
			var s complex128
			for k := 0; k < dim; k++ {
				s += m[i*dim+k] * cmplx.Conj(m[j*dim+k])
			}
			if i == j {
				s -= 1
			}
			row += cmplx.Abs(s)
		}
		if row > worst || math.IsNaN(row) {
			worst = row
		}
	}
	return worst
}

func matMul(a, b []complex128, dim int) []complex128 {
	c := make([]complex128, dim*dim)
	for i := 0; i < dim; i++ {
		for k := 0; k < dim; k++ {
			x := a[i*dim+k]
			if x == 0 {
				continue
			}
			for j := 0; j < dim; j++ {
				c[i*dim+j] += x * b[k*dim+j]
			}
		}
	}
	return c
}

func product(mats [][]complex128, dim int) []complex128 {
	p := mats[0]
	for j := 1; j < len(mats); j++ {
		p = matMul(mats[j], p, dim) // hardware/simulation applies Mtx[0] first
	}
	return p
}

func judge(n int, out *realOut, uref []complex128) verdict {
	v := verdict{UnitBad: -1}
	if out.Err != "" {
		v.EmitErr = out.Err
		return v
	}
	dim := 1 << n
	v.NMat = len(out.Mats)
	for i, m := range out.Mats {
		d := unitDev(m, dim)
		if d > v.UnitDev || math.IsNaN(d) {
			v.UnitDev = d
		}
		if (d > tolUnit || math.IsNaN(d)) && v.UnitBad < 0 {
			v.UnitBad = i
		}
	}
	p := product(out.Mats, dim)
	tol := tolEntr * float64(dim)
	for i := 0; i < dim; i++ {
		for j := 0; j < dim; j++ {
			d := cmplx.Abs(p[i*dim+j] - uref[i*dim+j])
			if d > v.ProdDev || math.IsNaN(d) {
				v.ProdDev, v.ProdAt = d, [2]int{i, j}
			}
		}
	}
	v.ProdFail = v.ProdDev > tol || math.IsNaN(v.ProdDev)
	for k := 0; k < dim; k++ {
		for i := 0; i < dim; i++ {
			d := cmplx.Abs(out.Sim[k][i] - uref[i*dim+k])
			if d > v.SimDev || math.IsNaN(d) {
				v.SimDev, v.SimAt = d, [2]int{k, i}
			}
		}
	}
	v.SimFail = v.SimDev > tol || math.IsNaN(v.SimDev)
	return v
}

// ---- classification -----------------------------------------------------------------------------------------

// groups: the reference notion of "one matrix" = maximal run of lines touching pairwise distinct qubits
func groups(seq []*inst) [][]*inst {
	var out [][]*inst
	var cur []*inst
	used := map[int]bool{}
	for _, in := range seq {
		clash := used[in.Q[0]] || (in.Def.Arity == 2 && used[in.Q[1]])
		if clash {
			out = append(out, cur)
			cur, used = nil, map[int]bool{}
		}
		cur = append(cur, in)
		used[in.Q[0]] = true
		if in.Def.Arity == 2 {
			used[in.Q[1]] = true
		}
	}
	if len(cur) > 0 {
		out = append(out, cur)
	}
	return out
}

func span(in *inst) (int, int) {
	if in.Q[0] < in.Q[1] {
		return in.Q[0], in.Q[1]
	}
	return in.Q[1], in.Q[0]
}

// classify returns the <gate> and <placement class> parts of the signature (never qubit numbers or n).
func classify(seq []*inst) (gate, class string) {
	if len(seq) == 1 {
		in := seq[0]
		gate = in.Def.Canon
		if in.Mn != in.Def.Canon {
			gate = "alias:" + strings.ToLower(in.Mn)
		}
		if in.Def.Arity == 1 {
			return gate, "single"
		}
		adj, asc := "nonadjacent", "descending"
		if d := in.Q[0] - in.Q[1]; d == 1 || d == -1 {
			adj = "adjacent"
		}
		if in.Q[0] < in.Q[1] {
			asc = "ascending"
		}
		return gate, adj + "-" + asc
	}
	var ar []string
	var two, one []*inst
	for _, in := range seq {
		ar = append(ar, strconv.Itoa(in.Def.Arity)+"q")
		if in.Def.Arity == 2 {
			two = append(two, in)
		} else {
			one = append(one, in)
		}
	}
	sort.Strings(ar)
	gate = strings.Join(ar, "+")
	if len(groups(seq)) > 1 {
		return gate, "sequence-split"
	}
	switch {
	case len(two) >= 2:
		l1, h1 := span(two[0])
		l2, h2 := span(two[1])
		if l2 < l1 {
			l1, h1, l2, h2 = l2, h2, l1, h1
		}
		if l2 > h1 {
			return gate, "same-matrix-separate-spans"
		}
		return gate, "same-matrix-overlapping-spans" // interleaved or nested qubit ranges
	case len(two) == 1:
		l, h := span(two[0])
		for _, o := range one {
			if o.Q[0] > l && o.Q[0] < h {
				return gate, "same-matrix-1q-inside-span"
			}
		}
		return gate, "same-matrix-1q-outside-span"
	}
	return gate, "same-matrix-singles"
}

// ---- enumeration --------------------------------------------------------------------------------------------

type caseDesc struct {
	N     int      `json:"n"`
	Lines []string `json:"lines"` // bmline.Text2BasmLine syntax, program order
}

type failRec struct {
	key  []int
	desc caseDesc
	what string
	cnt  int
}

type stage struct {
	n, L   int
	alpha  []*inst
	ids    []int // index of alpha[i] in the canonical alphabet of n (keys for subsumption)
	filter func(seq []*inst) bool // nil = all
	name   string
}

var (
	run         *vlib.Run
	evals       atomic.Int64
	matsEmitted atomic.Int64
	splitCases  atomic.Int64
	failCases   atomic.Int64
	subsumed    atomic.Int64
	maxProdDev  atomicMax
	maxUnitDev  atomicMax
	maxSimDev   atomicMax
	distinct    [64]struct {
		sync.Mutex
		m map[uint64]struct{}
	}
	failMu   sync.Mutex
	failSets = map[int]map[string]struct{}{} // n -> failing canonical sequences (key string)
	sigMu    sync.Mutex
	sigFirst = map[string]*failRec{}
	sigOrder []string
	deadline time.Time
	capped   atomic.Bool
)

type atomicMax struct {
	mu sync.Mutex
	v  float64
}

func (a *atomicMax) upd(x float64) {
	a.mu.Lock()
	if x > a.v {
		a.v = x
	}
	a.mu.Unlock()
}

func keyStr(k []int) string {
	b := make([]byte, 0, len(k)*2)
	for _, x := range k {
		b = append(b, byte(x>>8), byte(x))
	}
	return string(b)
}

func lessKey(a, b []int) bool {
	if len(a) != len(b) {
		return len(a) < len(b)
	}
	for i := range a {
		if a[i] != b[i] {
			return a[i] < b[i]
		}
	}
	return false
}

func hashU(n int, u []complex128) (h uint64, ident bool) {
	h = 1469598103934665603 ^ uint64(n)
	dim := 1 << n
	ident = true
	for i, c := range u {
		re, im := int64(math.Round(real(c)*1e6)), int64(math.Round(imag(c)*1e6))
		want := int64(0)
		if i/dim == i%dim {
			want = 1000000
		}
		if re != want || im != 0 {
			ident = false
		}
		h = (h ^ uint64(re)) * 1099511628211
		h = (h ^ uint64(im)) * 1099511628211
	}
	return
}

func linesOf(seq []*inst) []string {
	l := make([]string, len(seq))
	for i, in := range seq {
		l[i] = in.Text
	}
	return l
}

func pretty(seq []*inst) string {
	var p []string
	for _, in := range seq {
		p = append(p, strings.TrimSpace(strings.ReplaceAll(in.Bmq, "\t", " ")))
	}
	return strings.Join(p, " ; ")
}

func describe(n int, seq []*inst, v *verdict, oracle string) string {
	head := fmt.Sprintf("%d qubit(s) (q0 most significant), circuit [%s]: ", n, pretty(seq))
	switch oracle {
	case "emit-error":
		return head + v.EmitErr
	case "unitarity":
		return head + fmt.Sprintf("emitted matrix #%d of %d is not unitary (||M*M^dagger-I||_inf = %.3g)", v.UnitBad, v.NMat, v.UnitDev)
	case "product":
		return head + fmt.Sprintf("product of the %d emitted matrices differs from the circuit unitary (max |delta| = %.3g at row %d col %d)", v.NMat, v.ProdDev, v.ProdAt[0], v.ProdAt[1])
	default:
		return head + fmt.Sprintf("software simulation of basis state |%d> differs from column %d of the circuit unitary (|delta| = %.3g at amplitude %d) although the matrix product is right", v.SimAt[0], v.SimAt[0], v.SimDev, v.SimAt[1])
	}
}

func (st *stage) id(i int) int {
	if st.ids == nil {
		return i
	}
	return st.ids[i]
}

func allMid(idx []int, mid int) bool {
	for _, x := range idx {
		if x != mid {
			return false
		}
	}
	return true
}

func oraclesOf(v *verdict) []string {
	var o []string
	if v.EmitErr != "" {
		return []string{"emit-error"}
	}
	if v.UnitBad >= 0 {
		o = append(o, "unitarity")
	}
	if v.ProdFail {
		o = append(o, "product")
	} else if v.SimFail {
		o = append(o, "simulation")
	}
	return o
}

// evalCase runs one circuit on the real code and all oracles; records failures.
func evalCase(st *stage, idx []int, seq []*inst, uref []complex128, isAlias bool) {
	n := st.n
	body, err := buildBody(n, linesOf(seq))
	var out realOut
	if err != nil {
		out.Err = "Text2BasmLine: " + err.Error()
	} else {
		out = runReal(n, body)
	}
	v := judge(n, &out, uref)
	evals.Add(1)
	matsEmitted.Add(int64(v.NMat))
	if v.NMat > 1 {
		splitCases.Add(1)
	}
	maxProdDevLocal, maxUnitLocal, maxSimLocal := v.ProdDev, v.UnitDev, v.SimDev
	h, ident := hashU(n, uref)
	if !ident {
		sh := &distinct[h&63]
		sh.Lock()
		sh.m[h] = struct{}{}
		sh.Unlock()
	}
	if !v.failed() {
		maxProdDev.upd(maxProdDevLocal)
		maxUnitDev.upd(maxUnitLocal)
		maxSimDev.upd(maxSimLocal)
		if !isAlias && allMid(idx, st.id(len(st.alpha)/2)) {
			run.Sample(map[string]any{"n": n, "circuit": pretty(seq), "matrices_emitted": v.NMat, "max_abs_delta_product": v.ProdDev, "max_abs_delta_simulation": v.SimDev, "max_unitarity_dev": v.UnitDev})
		}
		return
	}
	failCases.Add(1)
	if isAlias {
		// an alias spelling failing exactly where its canonical spelling fails is the same failure
		in := seq[0]
		for ci, c := range canonAlphabet(n) {
			if c.Def == in.Def && c.Q == in.Q && c.Theta == in.Theta {
				failMu.Lock()
				_, bad := failSets[n][keyStr([]int{ci})]
				failMu.Unlock()
				if bad {
					subsumed.Add(1)
					return
				}
			}
		}
	} else {
		failMu.Lock()
		if failSets[n] == nil {
			failSets[n] = map[string]struct{}{}
		}
		failSets[n][keyStr(idx)] = struct{}{}
		failMu.Unlock()
		// subsumption: a failing circuit is attributed to a shorter failing circuit (one line deleted) when
		// there is one; the shorter one was evaluated in an earlier stage (stages run in length order)
		if len(idx) > 1 {
			sub := make([]int, 0, len(idx)-1)
			for d := range idx {
				sub = sub[:0]
				sub = append(sub, idx[:d]...)
				sub = append(sub, idx[d+1:]...)
				failMu.Lock()
				_, bad := failSets[n][keyStr(sub)]
				failMu.Unlock()
				if bad {
					subsumed.Add(1)
					return
				}
			}
		}
	}
	gate, class := classify(seq)
	for _, o := range oraclesOf(&v) {
		sig := "C14|" + gate + "|" + o + "|" + class
		k := append([]int{n}, idx...)
		sigMu.Lock()
		fr := sigFirst[sig]
		if fr == nil {
			fr = &failRec{}
			sigFirst[sig] = fr
			sigOrder = append(sigOrder, sig)
		}
		fr.cnt++
		if fr.key == nil || lessKey(k, fr.key) {
			fr.key = k
			fr.desc = caseDesc{N: n, Lines: linesOf(seq)}
			fr.what = describe(n, seq, &v, o)
		}
		sigMu.Unlock()
	}
}

// runStage enumerates alpha^L (filtered) in parallel; jobs = first symbol.
func runStage(st *stage, isAlias bool) {
	A := len(st.alpha)
	dim := 1 << st.n
	jobs := make(chan int, A)
	for i := 0; i < A; i++ {
		jobs <- i
	}
	close(jobs)
	var wg sync.WaitGroup
	nw := runtime.GOMAXPROCS(0)
	if nw > 16 {
		nw = 16
	}
	for w := 0; w < nw; w++ {
		wg.Add(1)
		go func() {
			defer wg.Done()
			us := make([][]complex128, st.L+1)
			for i := range us {
				us[i] = make([]complex128, dim*dim)
			}
			copy(us[0], identity(dim))
			idx := make([]int, st.L)
			seq := make([]*inst, st.L)
			var rec func(d int)
			rec = func(d int) {
				if d == st.L {
					if st.filter == nil || st.filter(seq) {
						evalCase(st, idx, seq, us[d], isAlias)
					}
					return
				}
				for i := 0; i < A; i++ {
					idx[d], seq[d] = st.id(i), st.alpha[i]
					applyGate(us[d+1], us[d], st.n, seq[d])
					rec(d + 1)
				}
			}
			for first := range jobs {
				if time.Now().After(deadline) {
					capped.Store(true)
					continue
				}
				idx[0], seq[0] = st.id(first), st.alpha[first]
				applyGate(us[1], us[0], st.n, seq[0])
				rec(1)
			}
		}()
	}
	wg.Wait()
}

// ---- front-end cross-check: the .bmq parser + metaExtractor produce the same BasmBody we construct -------------

func bodyText(b *bmline.BasmBody) string {
	s := "qbits=" + b.GetMeta("qbits")
	for _, l := range b.Lines {
		s += "|" + l.Operation.GetValue()
		for _, e := range l.Elements {
			s += "," + e.GetValue()
		}
	}
	return s
}

func frontendBody(dir string, id int, n int, seq []*inst) (*bmline.BasmBody, error) {
	qs := strings.ReplaceAll(qbitsMeta(n), ":", ", ")
	src := "%block code1 .sequential\n\tqbits\t" + qs + "\n"
	for _, in := range seq {
		src += in.Bmq + "\n"
	}
	src += "%endblock\n\n%meta bmdef global main:code1\n"
	f := filepath.Join(dir, "c"+strconv.Itoa(id)+".bmq")
	if err := os.WriteFile(f, []byte(src), 0o644); err != nil {
		return nil, err
	}
	defer os.Remove(f)
	bld := new(bmbuilder.BMBuilder)
	bld.BMBuilderInit()
	if err := bld.ParseBuilderDefault(f); err != nil {
		return nil, err
	}
	bld.UnsetActive("generatorsexec")
	if err := bld.RunBuilder(); err != nil {
		return nil, err
	}
	return bld.ExportBasmBody()
}

func frontendCrosscheck() {
	dir, clean := vlib.Scratch("c14")
	defer clean()
	id, ok, bad := 0, 0, 0
	check := func(n int, seq []*inst) {
		id++
		fb, err := frontendBody(dir, id, n, seq)
		mine, _ := buildBody(n, linesOf(seq))
		if err != nil || bodyText(fb) != bodyText(mine) {
			bad++
			if bad <= 3 {
				fmt.Fprintf(os.Stderr, "front-end cross-check mismatch: n=%d [%s] err=%v\n", n, pretty(seq), err)
			}
			return
		}
		// same matrices from both bodies
		a, b := runReal(n, fb), runReal(n, mine)
		same := a.Err == b.Err && len(a.Mats) == len(b.Mats)
		for i := 0; same && i < len(a.Mats); i++ {
			for j := range a.Mats[i] {
				if a.Mats[i][j] != b.Mats[i][j] {
					same = false
					break
				}
			}
		}
		if !same {
			bad++
			return
		}
		ok++
	}
	for n := 1; n <= 3; n++ {
		al := append(canonAlphabet(n), aliasAlphabet(n)...)
		for _, in := range al {
			check(n, []*inst{in})
		}
	}
	al := canonAlphabet(2)
	for _, a := range al {
		for _, b := range al {
			check(2, []*inst{a, b})
		}
	}
	run.Set("frontend_bodies_crosschecked", ok)
	run.Set("frontend_bodies_mismatch", bad)
	if bad > 0 {
		// harness precondition, not a property verdict: the directly constructed bodies would not be the
		// tool's bodies. Make it loud but do not claim a property violation.
		fmt.Fprintf(os.Stderr, "C14: %d front-end cross-check mismatches: the driver no longer mirrors cmd/bmqsim's input path\n", bad)
		run.Set("exhaustive", false)
		run.Set("cap_hit", "front-end cross-check mismatch")
	}
}

// ---- replay -------------------------------------------------------------------------------------------------

func parseLine(t string) (*inst, error) {
	p := strings.Split(t, "::")
	var canon string
	for _, mc := range mnemonics {
		if mc[0] == p[0] {
			canon = mc[1]
		}
	}
	if canon == "" {
		return nil, fmt.Errorf("unknown mnemonic %q", p[0])
	}
	d := gateDefs[canon]
	want := 1 + d.Arity
	if d.Param {
		want++
	}
	if len(p) != want {
		return nil, fmt.Errorf("line %q: expected %d fields", t, want)
	}
	var q [2]int
	q[1] = -1
	for i := 0; i < d.Arity; i++ {
		v, err := strconv.Atoi(strings.TrimPrefix(p[1+i], "q"))
		if err != nil {
			return nil, err
		}
		q[i] = v
	}
	th := 0.0
	if d.Param {
		v, err := strconv.ParseFloat(p[len(p)-1], 64)
		if err != nil {
			return nil, err
		}
		th = v
	}
	return mkInst(p[0], canon, q, th), nil
}

func fmtC(c complex128) string {
	switch {
	case cmplx.Abs(c) < 5e-7:
		return "0"
	case math.Abs(imag(c)) < 5e-7:
		return strconv.FormatFloat(real(c), 'g', 4, 64)
	case math.Abs(real(c)) < 5e-7:
		return strconv.FormatFloat(imag(c), 'g', 4, 64) + "i"
	}
	return fmt.Sprintf("%.4g%+.4gi", real(c), imag(c))
}

// fmtMat prints small matrices densely and every matrix as a sparse column map |k> -> sum amp|i>
func fmtMat(m []complex128, dim int) string {
	var sb strings.Builder
	nb := 0
	for 1<<nb < dim {
		nb++
	}
	if dim <= 8 {
		for i := 0; i < dim; i++ {
			sb.WriteString("    ")
			for j := 0; j < dim; j++ {
				fmt.Fprintf(&sb, "%-16s", fmtC(m[i*dim+j]))
			}
			sb.WriteString("\n")
		}
	}
	for k := 0; k < dim; k++ {
		fmt.Fprintf(&sb, "    |%0*b> ->", nb, k)
		for i := 0; i < dim; i++ {
			if cmplx.Abs(m[i*dim+k]) >= 5e-7 {
				fmt.Fprintf(&sb, " (%s)|%0*b>", fmtC(m[i*dim+k]), nb, i)
			}
		}
		sb.WriteString("\n")
	}
	return sb.String()
}

func replay(path string) {
	var cd caseDesc
	sig, err := vlib.LoadReplay(path, &cd)
	if err != nil {
		fmt.Println("cannot load replay:", err)
		os.Exit(2)
	}
	var seq []*inst
	for _, t := range cd.Lines {
		in, err := parseLine(t)
		if err != nil {
			fmt.Println("bad replay line:", err)
			os.Exit(2)
		}
		seq = append(seq, in)
	}
	n, dim := cd.N, 1<<cd.N
	fmt.Printf("replay %s\n  stored signature: %s\n  qbits %s (first = most significant)\n  circuit: %s\n", path, sig, qbitsMeta(n), pretty(seq))
	uref := refUnitary(n, seq)
	body, _ := buildBody(n, cd.Lines)
	out := runReal(n, body)
	v := judge(n, &out, uref)
	if out.Err != "" {
		fmt.Println("  real code:", out.Err)
	} else {
		for i, m := range out.Mats {
			fmt.Printf("  emitted matrix Mtx[%d] (unitarity deviation %.3g):\n%s", i, unitDev(m, dim), fmtMat(m, dim))
		}
		fmt.Printf("  product Mtx[%d]*...*Mtx[0]:\n%s", len(out.Mats)-1, fmtMat(product(out.Mats, dim), dim))
	}
	fmt.Printf("  reference unitary U_ref:\n%s", fmtMat(uref, dim))
	fmt.Printf("  oracles: emit-error=%q unitarity_bad_index=%d product_max_delta=%.3g (fail=%v) simulation_max_delta=%.3g (fail=%v)\n",
		v.EmitErr, v.UnitBad, v.ProdDev, v.ProdFail, v.SimDev, v.SimFail)
	if v.failed() {
		gate, class := classify(seq)
		for _, o := range oraclesOf(&v) {
			s := "C14|" + gate + "|" + o + "|" + class
			fmt.Println("  FAILS:", s)
			run.Report(s, describe(n, seq, &v, o), cd)
		}
	} else {
		fmt.Println("  PASSES all oracles")
	}
	run.Finish()
}

// ---- main ---------------------------------------------------------------------------------------------------

func main() {
	run = vlib.Start("C14", "exploration")
	// the code under test allocates many short-lived matrices; the live heap is small: collect rarely
	if pf := os.Getenv("C14_PROF"); pf != "" {
		f, _ := os.Create(pf)
		pprof.StartCPUProfile(f)
		defer pprof.StopCPUProfile()
	}
	for i := range distinct {
		distinct[i].m = map[uint64]struct{}{}
	}
	if run.Replay != "" {
		replay(run.Replay)
		return
	}
	budget := 100 * time.Second
	if run.Thorough() {
		budget = 17 * time.Minute
	}
	deadline = time.Now().Add(budget)

	run.Assume("mnemonic table taken from bmqsim.MatrixFromOp (lower-cased): h|hadamard=H, x|paulix=X, y|pauliy=Y, z|pauliz=Z, s|p=S=diag(1,i) (`p` is an alias of S in this code, NOT a parametric phase gate), t=diag(1,e^{i pi/4}), v|sx=sqrt(X), cx|cnot|xor=CNOT, cz|cphase|csign|cpf=CZ, swap, iswap, dcnot (|a,b>->|b,a^b>), xnor (|a,b>->|a,!(a^b)>), rx/ry/rz(theta) textbook rotations, r(theta)=diag(1,e^{i theta}) (phase shift), phase|ph(theta)=e^{i theta}*I (global phase)")
	run.Assume("zero, input (state preparation, MatrixFromOp returns no matrix) and nextop (separator) are not gates and are outside the property")
	run.Assume("conventions fixed from the code and checked on every case: first declared qubit = most significant index bit; first argument of a two-qubit gate = most significant bit of its 4x4 matrix (control of cx); circuit unitary = Mtx[k-1]*...*Mtx[0] because RunSoftwareSimulation applies Mtx[0] first; equality is exact (no global-phase slack), entrywise within 1e-4*2^n; unitarity ||M*M^dagger-I||_inf (max row sum) <= 1e-4")
	run.Assume("angles are passed as shortest round-trip decimal text of the float64 value and parsed by the code with ParseFloat(.,32)")
	run.Assume("a failing circuit of length L>1 is attributed to a shorter failing circuit obtained by deleting one line when such a circuit exists (counted in failures_subsumed_by_shorter); only minimal failing circuits get a signature; an alias spelling failing on the same placement as its canonical spelling is attributed to the canonical one")

	lmax3 := 2
	if run.Thorough() {
		lmax3 = 3
	}
	var stages []*stage
	bounds := map[string]any{}
	for n := 1; n <= 5; n++ {
		al := canonAlphabet(n)
		L := lmax3
		if n == 5 {
			L = 2
		}
		for l := 1; l <= L; l++ {
			st := &stage{n: n, L: l, alpha: al, name: fmt.Sprintf("n=%d len=%d all sequences", n, l)}
			stages = append(stages, st)
		}
		bounds[fmt.Sprintf("n%d", n)] = map[string]any{"alphabet_gate_placements": len(al), "max_length": L}
		if n == 5 && run.Thorough() {
			// length 3 at n=5 over a reduced alphabet (asymmetric representatives), every placement
			keep := map[string]bool{"h": true, "ry": true, "cx": true, "iswap": true}
			st := &stage{n: 5, L: 3, name: "n=5 len=3 reduced alphabet {h,ry(pi/3),cx,iswap} all placements"}
			for i, in := range al {
				if keep[in.Def.Canon] && (!in.Def.Param || in.Theta == angles[2]) {
					st.alpha = append(st.alpha, in)
					st.ids = append(st.ids, i)
				}
			}
			stages = append(stages, st)
			bounds["n5_len3"] = map[string]any{"alphabet_gate_placements": len(st.alpha), "gates": "h,ry(pi/3),cx,iswap"}
		}
	}
	run.Set("bounds", bounds)
	run.Set("angles", angleNames)
	run.Set("rule", "forall circuits c in the bounded universe: QasmToBmMatrices(c) emits 2^n x 2^n matrices without error; each emitted M has ||M*M^dagger-I||_inf<=1e-4; Mtx[k-1]*...*Mtx[0] == U_ref(c) entrywise within 1e-4*2^n (exact, no phase slack); RunSoftwareSimulation(|k>) == column k of U_ref(c) for every basis state k")

	perStage := map[string]int{}
	for _, st := range stages {
		before := evals.Load()
		t0 := time.Now()
		runStage(st, false)
		perStage[st.name] = int(evals.Load() - before)
		if os.Getenv("C14_VERBOSE") != "" {
			fmt.Fprintf(os.Stderr, "stage %-40s %9d circuits %6.1fs\n", st.name, evals.Load()-before, time.Since(t0).Seconds())
		}
	}
	run.Set("evaluations_per_stage", perStage)

	// alias spellings: every accepted mnemonic, every placement, length 1, n=1..5
	aliasEvals := 0
	for n := 1; n <= 5; n++ {
		st := &stage{n: n, L: 1, alpha: aliasAlphabet(n), name: "aliases"}
		before := evals.Load()
		runStage(st, true)
		aliasEvals += int(evals.Load() - before)
	}
	run.Set("alias_spelling_evaluations", aliasEvals)

	// angle sweep: every parametric gate alone at 54 angles over four turns, every placement, n=1..3
	wideEvals := 0
	for n := 1; n <= 3; n++ {
		st := &stage{n: n, L: 1, alpha: wideAngleAlphabet(n), name: "wide angles"}
		before := evals.Load()
		runStage(st, true)
		wideEvals += int(evals.Load() - before)
	}
	run.Set("wide_angle_evaluations", wideEvals)
	run.Set("wide_angles", "k*pi/6 for k in -24..24, 7.5, -7.5, 9.424778, 40, -100")

	if !capped.Load() {
		frontendCrosscheck()
	}

	// deterministic reporting order: by smallest failing instance
	sort.Slice(sigOrder, func(i, j int) bool {
		a, b := sigFirst[sigOrder[i]], sigFirst[sigOrder[j]]
		if lessKey(a.key, b.key) || lessKey(b.key, a.key) {
			return lessKey(a.key, b.key)
		}
		return sigOrder[i] < sigOrder[j]
	})
	bySig := map[string]int{}
	for _, s := range sigOrder {
		fr := sigFirst[s]
		bySig[s] = fr.cnt
		for i := 0; i < fr.cnt; i++ {
			run.Report(s, fr.what, fr.desc)
		}
	}
	if len(bySig) > 0 {
		run.Set("minimal_failing_cases_by_signature", bySig)
	}
	nd := 0
	for i := range distinct {
		nd += len(distinct[i].m)
	}
	run.Set("evaluations", int(evals.Load()))
	run.Set("distinct_nontrivial", nd)
	run.Set("distinct_nontrivial_meaning", "distinct non-identity reference unitaries (rounded to 1e-6) among the evaluated circuits")
	run.Set("matrices_emitted", int(matsEmitted.Load()))
	run.Set("circuits_compiled_to_more_than_one_matrix", int(splitCases.Load()))
	run.Set("failing_circuits", int(failCases.Load()))
	run.Set("failures_subsumed_by_shorter", int(subsumed.Load()))
	run.Set("max_abs_delta_product_on_passing", maxProdDev.v)
	run.Set("max_abs_delta_simulation_on_passing", maxSimDev.v)
	run.Set("max_unitarity_dev_on_passing", maxUnitDev.v)
	if _, ok := run.Cov["exhaustive"]; !ok {
		run.Set("exhaustive", !capped.Load())
	}
	if capped.Load() {
		run.Set("cap_hit", fmt.Sprintf("time budget %v reached; remaining jobs skipped", budget))
	}
	pprof.StopCPUProfile()
	run.Finish()
}
