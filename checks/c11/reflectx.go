package main

// Reflection helpers: a canonical flattening of a machine (path -> printable value, nil and empty slices
// identified), a leaf enumerator / mutator used by the field-completeness oracle, and an in-place
// nil->empty slice normaliser used before the reflect.DeepEqual cross-check.

import (
	"fmt"
	"reflect"
	"regexp"
	"sort"
	"strconv"
	"strings"

	"github.com/BondMachineHQ/BondMachine/pkg/bondmachine"
	"github.com/BondMachineHQ/BondMachine/pkg/procbuilder"
)

var (
	opcodeType = reflect.TypeOf((*procbuilder.Opcode)(nil)).Elem()
	soInstType = reflect.TypeOf((*bondmachine.Shared_instance)(nil)).Elem()
	soElemType = reflect.TypeOf((*bondmachine.Shared_element)(nil)).Elem()
)

// flatten produces one "path=value" entry per scalar reachable from v. Slices contribute
// "path.len=N" (nil and empty both give 0) and one subtree per element. Interfaces contribute the
// dynamic Go type plus the subtree of the dynamic value (unexported fields included, pointers
// followed), so that two opcodes / shared objects are equal iff all their parameters are equal.
func flatten(v reflect.Value, path string, out map[string]string, depth int) {
	if depth > 12 {
		out[path] = "<depth>"
		return
	}
	switch v.Kind() {
	case reflect.Bool:
		out[path] = strconv.FormatBool(v.Bool())
	case reflect.Int, reflect.Int8, reflect.Int16, reflect.Int32, reflect.Int64:
		out[path] = strconv.FormatInt(v.Int(), 10)
	case reflect.Uint, reflect.Uint8, reflect.Uint16, reflect.Uint32, reflect.Uint64, reflect.Uintptr:
		out[path] = strconv.FormatUint(v.Uint(), 10)
	case reflect.Float32, reflect.Float64:
		out[path] = strconv.FormatFloat(v.Float(), 'g', -1, 64)
	case reflect.Complex64, reflect.Complex128:
		out[path] = fmt.Sprint(v.Complex())
	case reflect.String:
		out[path] = strconv.Quote(v.String())
	case reflect.Slice, reflect.Array:
		out[path+".len"] = strconv.Itoa(v.Len())
		for i := 0; i < v.Len(); i++ {
			flatten(v.Index(i), path+"["+strconv.Itoa(i)+"]", out, depth+1)
		}
	case reflect.Map:
		out[path+".len"] = strconv.Itoa(v.Len())
		keys := v.MapKeys()
		ks := make([]string, len(keys))
		km := map[string]reflect.Value{}
		for i, k := range keys {
			ks[i] = fmt.Sprint(k)
			km[ks[i]] = k
		}
		sort.Strings(ks)
		for _, k := range ks {
			flatten(v.MapIndex(km[k]), path+"{"+k+"}", out, depth+1)
		}
	case reflect.Ptr:
		if v.IsNil() {
			out[path] = "<nil>"
			return
		}
		flatten(v.Elem(), path, out, depth+1)
	case reflect.Interface:
		if v.IsNil() {
			out[path] = "<nil>"
			return
		}
		e := v.Elem()
		out[path+".(type)"] = e.Type().String()
		if v.Type() == opcodeType && e.CanInterface() {
			out[path+".(name)"] = strconv.Quote(e.Interface().(procbuilder.Opcode).Op_get_name())
		}
		if v.Type() == soInstType && e.CanInterface() {
			out[path+".(string)"] = strconv.Quote(safeSOString(e.Interface().(bondmachine.Shared_instance)))
		}
		flatten(e, path, out, depth+1)
	case reflect.Struct:
		t := v.Type()
		for i := 0; i < v.NumField(); i++ {
			flatten(v.Field(i), path+"."+t.Field(i).Name, out, depth+1)
		}
	case reflect.Func, reflect.Chan, reflect.UnsafePointer:
		if v.IsNil() {
			out[path] = "<nil>"
		} else {
			out[path] = "<" + v.Kind().String() + ">"
		}
	default:
		out[path] = "<" + v.Kind().String() + ">"
	}
}

func safeSOString(s bondmachine.Shared_instance) (r string) {
	defer func() {
		if p := recover(); p != nil {
			r = fmt.Sprintf("<panic %v>", p)
		}
	}()
	return s.String()
}

func flat(x any) map[string]string {
	out := map[string]string{}
	flatten(reflect.ValueOf(x), "", out, 0)
	return out
}

type pathDiff struct {
	Path string `json:"path"`
	A    string `json:"original"`
	B    string `json:"loaded"`
}

// diffFlat lists the paths on which two flattenings differ (missing = "<absent>"), sorted.
func diffFlat(a, b map[string]string) []pathDiff {
	var out []pathDiff
	for k, va := range a {
		vb, ok := b[k]
		if !ok {
			vb = "<absent>"
		}
		if va != vb {
			out = append(out, pathDiff{k, va, vb})
		}
	}
	for k, vb := range b {
		if _, ok := a[k]; !ok {
			out = append(out, pathDiff{k, "<absent>", vb})
		}
	}
	sort.Slice(out, func(i, j int) bool { return out[i].Path < out[j].Path })
	return out
}

var idxRe = regexp.MustCompile(`\[[0-9]+\]|\{[^}]*\}`)

// classPath removes concrete indices / map keys: Domains[1].Arch.Conproc.Op[3] -> Domains[].Arch.Conproc.Op[]
func classPath(p string) string {
	p = idxRe.ReplaceAllStringFunc(p, func(s string) string {
		if s[0] == '[' {
			return "[]"
		}
		return "{}"
	})
	return strings.TrimPrefix(p, ".")
}

// normalise turns nil slices into empty ones wherever the value is settable.
func normalise(v reflect.Value, depth int) {
	if depth > 12 {
		return
	}
	switch v.Kind() {
	case reflect.Ptr:
		if !v.IsNil() {
			normalise(v.Elem(), depth+1)
		}
	case reflect.Struct:
		for i := 0; i < v.NumField(); i++ {
			if v.Type().Field(i).PkgPath == "" || v.Type().Field(i).Anonymous {
				normalise(v.Field(i), depth+1)
			}
		}
	case reflect.Slice:
		if v.IsNil() && v.CanSet() {
			v.Set(reflect.MakeSlice(v.Type(), 0, 0))
		}
		for i := 0; i < v.Len(); i++ {
			normalise(v.Index(i), depth+1)
		}
	}
}

// ---- leaf enumeration / mutation -------------------------------------------------------------

type leaf struct {
	Path string
	Kind string // scalar | append | iface
	v    reflect.Value
}

// leaves walks the exported, settable part of v (embedded structs included) and returns every place
// where a value can be changed: scalars, "append one element" for slices, "replace" for interfaces.
// unsupported collects paths the mutator cannot handle (reported in the evidence, never ignored silently).
func leaves(v reflect.Value, path string, out *[]leaf, unsupported *[]string, depth int) {
	if depth > 12 {
		return
	}
	switch v.Kind() {
	case reflect.Bool, reflect.Int, reflect.Int8, reflect.Int16, reflect.Int32, reflect.Int64,
		reflect.Uint, reflect.Uint8, reflect.Uint16, reflect.Uint32, reflect.Uint64,
		reflect.Float32, reflect.Float64, reflect.String:
		if v.CanSet() {
			*out = append(*out, leaf{path, "scalar", v})
		} else {
			*unsupported = append(*unsupported, path+" (not settable)")
		}
	case reflect.Ptr:
		if v.IsNil() {
			if v.CanSet() {
				*out = append(*out, leaf{path, "newptr", v})
			} else {
				*unsupported = append(*unsupported, path+" (nil pointer, not settable)")
			}
			return
		}
		leaves(v.Elem(), path, out, unsupported, depth+1)
	case reflect.Struct:
		t := v.Type()
		for i := 0; i < v.NumField(); i++ {
			f := t.Field(i)
			if f.PkgPath != "" && !f.Anonymous {
				*unsupported = append(*unsupported, path+"."+f.Name+" (unexported)")
				continue
			}
			leaves(v.Field(i), path+"."+f.Name, out, unsupported, depth+1)
		}
	case reflect.Slice:
		if v.CanSet() {
			*out = append(*out, leaf{path, "append", v})
		} else {
			*unsupported = append(*unsupported, path+" (slice not settable)")
		}
		for i := 0; i < v.Len(); i++ {
			leaves(v.Index(i), path+"["+strconv.Itoa(i)+"]", out, unsupported, depth+1)
		}
	case reflect.Array:
		for i := 0; i < v.Len(); i++ {
			leaves(v.Index(i), path+"["+strconv.Itoa(i)+"]", out, unsupported, depth+1)
		}
	case reflect.Map:
		if v.CanSet() {
			*out = append(*out, leaf{path, "mapadd", v})
		} else {
			*unsupported = append(*unsupported, path+" (map not settable)")
		}
	case reflect.Interface:
		if v.CanSet() && (v.Type() == opcodeType || v.Type() == soInstType) {
			*out = append(*out, leaf{path, "iface", v})
		} else {
			*unsupported = append(*unsupported, path+" (interface "+v.Type().String()+")")
		}
	default:
		*unsupported = append(*unsupported, path+" ("+v.Kind().String()+")")
	}
}

// nonZero builds a value of type t none of whose parts is the zero value. ok=false when some part
// of the type cannot be populated by this harness.
func nonZero(t reflect.Type, avoid reflect.Value, depth int) (reflect.Value, bool) {
	v := reflect.New(t).Elem()
	if depth > 6 {
		return v, false
	}
	switch t.Kind() {
	case reflect.Bool:
		v.SetBool(true)
	case reflect.Int, reflect.Int8, reflect.Int16, reflect.Int32, reflect.Int64:
		v.SetInt(1)
	case reflect.Uint, reflect.Uint8, reflect.Uint16, reflect.Uint32, reflect.Uint64:
		v.SetUint(1)
	case reflect.Float32, reflect.Float64:
		v.SetFloat(1.5)
	case reflect.String:
		v.SetString("x")
	case reflect.Ptr:
		e, ok := nonZero(t.Elem(), reflect.Value{}, depth+1)
		p := reflect.New(t.Elem())
		p.Elem().Set(e)
		return p, ok
	case reflect.Struct:
		ok := true
		for i := 0; i < t.NumField(); i++ {
			f := t.Field(i)
			if f.PkgPath != "" && !f.Anonymous {
				ok = false
				continue
			}
			e, o := nonZero(f.Type, reflect.Value{}, depth+1)
			ok = ok && o
			v.Field(i).Set(e)
		}
		return v, ok
	case reflect.Slice:
		e, ok := nonZero(t.Elem(), reflect.Value{}, depth+1)
		return reflect.Append(v, e), ok
	case reflect.Array:
		ok := true
		for i := 0; i < t.Len(); i++ {
			e, o := nonZero(t.Elem(), reflect.Value{}, depth+1)
			ok = ok && o
			v.Index(i).Set(e)
		}
		return v, ok
	case reflect.Map:
		k, ok1 := nonZero(t.Key(), reflect.Value{}, depth+1)
		e, ok2 := nonZero(t.Elem(), reflect.Value{}, depth+1)
		m := reflect.MakeMap(t)
		m.SetMapIndex(k, e)
		return m, ok1 && ok2
	case reflect.Interface:
		switch t {
		case opcodeType:
			cur := ""
			if avoid.IsValid() && !avoid.IsNil() {
				cur = avoid.Interface().(procbuilder.Opcode).Op_get_name()
			}
			for _, op := range procbuilder.Allopcodes {
				if op.Op_get_name() != cur {
					v.Set(reflect.ValueOf(op))
					return v, true
				}
			}
			return v, false
		case soInstType:
			cur := ""
			if avoid.IsValid() && !avoid.IsNil() {
				cur = avoid.Interface().(bondmachine.Shared_instance).String()
			}
			for _, s := range []string{"queue:5", "stack:7"} {
				if s != cur {
					if inst, ok := instantiateSO(s); ok {
						v.Set(reflect.ValueOf(inst))
						return v, true
					}
				}
			}
			return v, false
		}
		return v, false
	default:
		return v, false
	}
	return v, true
}

func instantiateSO(s string) (bondmachine.Shared_instance, bool) {
	for _, shr := range bondmachine.Allshared {
		if inst, ok := shr.Instantiate(s); ok {
			return inst, true
		}
	}
	return nil, false
}

// mutate changes the leaf to a different, non-zero value. Returns a description, ok=false if impossible.
func mutate(l leaf) (string, bool) {
	v := l.v
	switch l.Kind {
	case "scalar":
		switch v.Kind() {
		case reflect.Bool:
			v.SetBool(!v.Bool())
		case reflect.Int, reflect.Int8, reflect.Int16, reflect.Int32, reflect.Int64:
			v.SetInt(v.Int() + 1)
		case reflect.Uint, reflect.Uint8, reflect.Uint16, reflect.Uint32, reflect.Uint64:
			v.SetUint(v.Uint() + 1)
		case reflect.Float32, reflect.Float64:
			v.SetFloat(v.Float() + 1.5)
		case reflect.String:
			v.SetString(v.String() + "x")
		}
		return "scalar changed", true
	case "append":
		e, ok := nonZero(v.Type().Elem(), reflect.Value{}, 0)
		v.Set(reflect.Append(v, e))
		return "element appended", ok
	case "newptr":
		e, ok := nonZero(v.Type(), reflect.Value{}, 0)
		v.Set(e)
		return "pointer populated", ok
	case "mapadd":
		e, ok := nonZero(v.Type(), reflect.Value{}, 0)
		v.Set(e)
		return "map populated", ok
	case "iface":
		e, ok := nonZero(v.Type(), v, 0)
		if ok {
			v.Set(e)
		}
		return "interface value replaced", ok
	}
	return "", false
}
