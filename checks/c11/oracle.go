package main

// The four oracles of C11 on one machine: structural equality of load(save(m)), byte equality of
// save(load(save(m))), byte equality of the generated Verilog file set, equality of the simulator
// state digest for 20 ticks. Loading can be done in this process or in a freshly started one.

import (
	"bytes"
	"crypto/sha256"
	"encoding/hex"
	"encoding/json"
	"fmt"
	"os"
	"os/exec"
	"reflect"
	"sort"
	"strings"
	"sync"
	"sync/atomic"
	"time"

	"verif/lib/bmgen"
	"verif/lib/bmsys"

	"github.com/BondMachineHQ/BondMachine/pkg/bondmachine"
	"github.com/BondMachineHQ/BondMachine/pkg/procbuilder"
)

const simTicks = 20

// fields that are generation-time scratch state, not part of the machine description. Each entry is
// (re)assigned by the generators before anything reads it:
//
//	Arch.Conproc.CpID         set to the processor index by Bondmachine.Write_verilog (pkg/bondmachine/verilog.go:83)
//	Arch.Conproc.SharedHDLOps set from the running list by Bondmachine.Write_verilog (verilog.go:84), appended by flopoco/fxp generators
//	Arch.Tag                  set from CpID at the top of Conproc.Write_verilog (pkg/procbuilder/conproc.go:287)
//
// The simulator uses procbuilder.VM.CpID (set in pkg/bondmachine/vm.go:194), not Conproc.CpID.
// The check does not trust this list blindly: for each entry it measures that changing the field
// changes neither the rendered Verilog nor the simulation (see fieldCase).
var transient = map[string]bool{
	"Arch.Conproc.CpID":         true,
	"Arch.Conproc.SharedHDLOps": true,
	"Arch.Tag":                  true,
}

type failure struct {
	Sig  string `json:"signature"`
	What string `json:"what"`
}

func saveBM(bm *bondmachine.Bondmachine) (b []byte, err error) {
	defer func() {
		if p := recover(); p != nil {
			err = fmt.Errorf("panic: %v", p)
		}
	}()
	return json.Marshal(bm.Jsoner())
}

// loadBM is what cmd/bondmachine, cmd/basm, … do with a -bondmachine-file.
func loadBM(b []byte) (bm *bondmachine.Bondmachine, err error) {
	defer func() {
		if p := recover(); p != nil {
			err = fmt.Errorf("panic: %v", p)
		}
	}()
	var j bondmachine.Bondmachine_json
	if err := json.Unmarshal(b, &j); err != nil {
		return nil, err
	}
	bm = (&j).Dejsoner()
	bm.Init() // every CLI calls Init right after Dejsoner ("an idempotent set of operations to ensure consistency")
	return bm, nil
}

func saveMachine(m *procbuilder.Machine) (b []byte, err error) {
	defer func() {
		if p := recover(); p != nil {
			err = fmt.Errorf("panic: %v", p)
		}
	}()
	return json.Marshal(m.Jsoner())
}

// loadMachine is what cmd/procbuilder does with a -load-machine file.
func loadMachine(b []byte) (m *procbuilder.Machine, err error) {
	defer func() {
		if p := recover(); p != nil {
			err = fmt.Errorf("panic: %v", p)
		}
	}()
	var j procbuilder.Machine_json
	if err := json.Unmarshal(b, &j); err != nil {
		return nil, err
	}
	return (&j).Dejsoner(), nil
}

func render(bm *bondmachine.Bondmachine) (map[string]string, error) {
	return bmgen.RenderFiles(bm, new(bondmachine.Config), "iverilog")
}

// simFaithful: opcodes whose Simulate is implemented (checks/c01/coimpl.json) plus the blocking IO pair
// the C04 model checker already runs on the simulator. Simulate of other opcodes is a stub or panics
// inside the VM's worker goroutine, which no harness can recover from.
var simFaithful map[string]bool

func loadSimFaithful() {
	simFaithful = map[string]bool{"r2owa": true, "i2rw": true}
	var m map[string][]int
	if b, err := os.ReadFile("/verif/checks/c01/coimpl.json"); err == nil && json.Unmarshal(b, &m) == nil {
		for k := range m {
			simFaithful[k] = true
		}
	}
}

func simulable(bm *bondmachine.Bondmachine) bool {
	if len(bm.Processors) == 0 {
		return false
	}
	for _, d := range bm.Processors {
		if d < 0 || d >= len(bm.Domains) || bm.Domains[d] == nil || len(bm.Domains[d].Slocs) == 0 {
			return false
		}
		for _, op := range bm.Domains[d].Op {
			if op == nil || !simFaithful[op.Op_get_name()] {
				return false
			}
		}
		if bm.Domains[d].Rsize != 8 && bm.Domains[d].Rsize != 16 {
			return false
		}
	}
	return true
}

func simDigests(bm *bondmachine.Bondmachine) (out []string) {
	if !simulable(bm) {
		return []string{"not simulable"}
	}
	defer func() {
		if p := recover(); p != nil {
			out = append(out, fmt.Sprintf("panic: %v", p))
		}
	}()
	s, err := bmsys.NewSIM(bm, true)
	if err != nil {
		return []string{"init error: " + err.Error()}
	}
	out = append(out, bmsys.Key(s.VM))
	for t := 0; t < simTicks; t++ {
		if err := s.Step(); err != nil {
			out = append(out, "step error: "+err.Error())
			return out
		}
		out = append(out, bmsys.Key(s.VM))
	}
	return out
}

// registryProblems checks that every loaded opcode IS the registry entry of that name (and that the
// registry has exactly one such entry).
func registryProblems(bm *bondmachine.Bondmachine) []string {
	var out []string
	for di, d := range bm.Domains {
		if d == nil {
			continue
		}
		for oi, op := range d.Op {
			if op == nil {
				continue // reported by the structural comparison
			}
			n := 0
			same := false
			for _, r := range procbuilder.Allopcodes {
				if r.Op_get_name() == op.Op_get_name() {
					n++
					if reflect.DeepEqual(r, op) {
						same = true
					}
				}
			}
			if n != 1 || !same {
				out = append(out, fmt.Sprintf("domain %d op %d %q: %d registry entries, identical=%v", di, oi, op.Op_get_name(), n, same))
			}
		}
	}
	return out
}

// ---- fresh-process loading -------------------------------------------------------------------

type childJob struct {
	JSON   []byte          `json:"json"`
	LQ     map[int]float64 `json:"lq,omitempty"`
	Sim    bool            `json:"sim"`
	Render bool            `json:"render"`
}

type childResult struct {
	LoadErr   string            `json:"load_err,omitempty"`
	Flat      map[string]string `json:"flat,omitempty"`
	Registry  []string          `json:"registry,omitempty"`
	Resave    []byte            `json:"resave,omitempty"`
	ResaveErr string            `json:"resave_err,omitempty"`
	Files     map[string]string `json:"files,omitempty"`
	RenderErr string            `json:"render_err,omitempty"`
	Sim       []string          `json:"sim,omitempty"`
	NilIface  bool              `json:"nil_iface"`
}

func hasNilIface(f map[string]string) bool {
	for k, v := range f {
		if v == "<nil>" && (strings.Contains(k, ".Op[") || strings.Contains(k, ".Shared_objects[")) {
			return true
		}
	}
	return false
}

// childMain: load the machine the parent saved, in a process whose opcode registry is pristine.
func childMain(jobFile string) {
	d, err := os.MkdirTemp("", "verif-c11-child-")
	if err == nil {
		defer os.RemoveAll(d)
		os.Chdir(d)
	}
	var job childJob
	b, err := os.ReadFile(jobFile)
	if err == nil {
		err = json.Unmarshal(b, &job)
	}
	var res childResult
	if err != nil {
		res.LoadErr = "job unreadable: " + err.Error()
	} else {
		if job.LQ != nil {
			setLQRanges(job.LQ)
		}
		l1, err := loadBM(job.JSON)
		if err != nil {
			res.LoadErr = err.Error()
		} else {
			res.Flat = flat(l1)
			res.NilIface = hasNilIface(res.Flat)
			res.Registry = registryProblems(l1)
			if !res.NilIface {
				if s2, err := saveBM(l1); err != nil {
					res.ResaveErr = err.Error()
				} else {
					res.Resave = s2
				}
				if job.Sim {
					loadSimFaithful()
					res.Sim = simDigests(l1)
				}
				if job.Render {
					l2, err := loadBM(job.JSON)
					if err != nil {
						res.RenderErr = "second load: " + err.Error()
					} else if f, err := render(l2); err != nil {
						res.RenderErr = err.Error()
					} else {
						res.Files = f
					}
				}
			}
		}
	}
	out, _ := json.Marshal(res)
	os.WriteFile(jobFile+".out", out, 0o644) // not stdout: generators in /repo print there
	if d != "" {
		os.RemoveAll(d)
	}
	os.Exit(0)
}

var scratchDir string
var jobSeq int64

// children are independent processes, so they may run concurrently; results are cached by job content
var (
	childCache   = map[string]childResult{}
	childCacheMu sync.Mutex
)

func jobKey(job childJob) string {
	b, _ := json.Marshal(job)
	h := sha256.Sum256(b)
	return hex.EncodeToString(h[:])
}

// prefetchChildren runs the fresh-process loads of the given jobs, at most par at a time.
func prefetchChildren(jobs []childJob, par int, deadline time.Time) {
	sem := make(chan struct{}, par)
	var wg sync.WaitGroup
	for _, j := range jobs {
		k := jobKey(j)
		childCacheMu.Lock()
		_, done := childCache[k]
		childCacheMu.Unlock()
		if done || time.Now().After(deadline) {
			continue // past the deadline the main loop loads synchronously under its own budget check
		}
		wg.Add(1)
		sem <- struct{}{}
		go func(j childJob, k string) {
			defer wg.Done()
			defer func() { <-sem }()
			if res, err := spawnChild(j); err == nil {
				childCacheMu.Lock()
				childCache[k] = res
				childCacheMu.Unlock()
			}
		}(j, k)
	}
	wg.Wait()
}

func runChild(job childJob) (childResult, error) {
	childCacheMu.Lock()
	res, ok := childCache[jobKey(job)]
	childCacheMu.Unlock()
	if ok {
		return res, nil
	}
	return spawnChild(job)
}

func spawnChild(job childJob) (childResult, error) {
	var res childResult
	jf := fmt.Sprintf("%s/job-%d.json", scratchDir, atomic.AddInt64(&jobSeq, 1))
	b, _ := json.Marshal(job)
	if err := os.WriteFile(jf, b, 0o644); err != nil {
		return res, err
	}
	defer os.Remove(jf)
	exe, err := os.Executable()
	if err != nil {
		return res, err
	}
	cmd := exec.Command(exe, "-child", jf)
	cmd.Dir = scratchDir
	var stderr bytes.Buffer
	cmd.Stderr = &stderr
	if _, err := cmd.Output(); err != nil {
		return res, fmt.Errorf("child failed: %v: %s", err, tail(stderr.String(), 400))
	}
	out, err := os.ReadFile(jf + ".out")
	os.Remove(jf + ".out")
	if err != nil {
		return res, fmt.Errorf("child wrote no result: %v: %s", err, tail(stderr.String(), 400))
	}
	if err := json.Unmarshal(out, &res); err != nil {
		return res, fmt.Errorf("child output unreadable: %v: %s", err, tail(string(out), 200))
	}
	return res, nil
}

func tail(s string, n int) string {
	if len(s) > n {
		return "…" + s[len(s)-n:]
	}
	return s
}

// ---- classification of structural differences ---------------------------------------------------

func ifacePrefix(p, marker string) (string, bool) {
	i := strings.Index(p, marker)
	if i < 0 {
		return "", false
	}
	j := strings.Index(p[i+len(marker):], "]")
	if j < 0 {
		return "", false
	}
	return p[:i+len(marker)+j+1], true
}

// classify turns path differences into failures, one per root-cause class.
func classify(top string, fo, fl map[string]string, diffs []pathDiff, opDetail string) []failure {
	var out []failure
	seen := map[string]bool{}
	put := func(sig, what string) {
		if !seen[sig] {
			seen[sig] = true
			out = append(out, failure{sig, what})
		}
	}
	// a slice whose length changed: differences below it are consequences, not separate losses
	var lenChanged []string
	for _, d := range diffs {
		if strings.HasSuffix(d.Path, ".len") {
			lenChanged = append(lenChanged, strings.TrimSuffix(d.Path, ".len")+"[")
		}
	}
	for _, d := range diffs {
		below := false
		for _, p := range lenChanged {
			if strings.HasPrefix(d.Path, p) {
				below = true
			}
		}
		if below {
			continue
		}
		if pre, ok := ifacePrefix(d.Path, ".Op["); ok {
			name := strings.Trim(fo[pre+".(name)"], `"`)
			fam := opFamily(name)
			if fl[pre] == "<nil>" {
				put("C11|opcode|dropped-on-load|"+fam+opDetail, fmt.Sprintf("opcode %q (%s) is a nil entry after load, no error reported: %s", name, fam, pre))
			} else if fo[pre] == "<nil>" {
				put("C11|opcode|appears-on-load|"+fam, fmt.Sprintf("%s: nil in the original, %s after load", pre, fl[pre+".(name)"]))
			} else {
				put("C11|opcode|changed-on-load|"+fam, fmt.Sprintf("opcode %q differs after load at %s: %s -> %s", name, d.Path, d.A, d.B))
			}
			continue
		}
		if strings.HasSuffix(d.Path, ".Op.len") {
			put("C11|opcode|list-length-changed-on-load", fmt.Sprintf("%s: %s -> %s", d.Path, d.A, d.B))
			continue
		}
		if pre, ok := ifacePrefix(d.Path, ".Shared_objects["); ok {
			str := strings.Trim(fo[pre+".(string)"], `"`)
			kind := strings.SplitN(str, ":", 2)[0]
			if kind == "" {
				kind = "unknown"
			}
			if fl[pre] == "<nil>" {
				put("C11|shared-object|"+kind+"|nil-after-load", fmt.Sprintf("shared object %q is a nil interface after load (%s): no Allshared entry instantiates its String()", str, pre))
			} else {
				put("C11|shared-object|"+kind+"|changed-on-load", fmt.Sprintf("shared object %q differs after load at %s: %s -> %s", str, d.Path, d.A, d.B))
			}
			continue
		}
		if d.Path == ".Shared_objects.len" {
			put("C11|shared-object|list-length-changed-on-load", fmt.Sprintf("%s: %s -> %s", d.Path, d.A, d.B))
			continue
		}
		cp := classPath(d.Path)
		st := top
		if strings.HasPrefix(cp, "Domains[].") {
			st = "Machine"
			cp = strings.TrimPrefix(cp, "Domains[].")
		}
		cp = strings.TrimSuffix(cp, ".len")
		if st == "Machine" && transient[cp] {
			put("transient|"+cp, fmt.Sprintf("%s: %s -> %s", d.Path, d.A, d.B))
			continue
		}
		put("C11|"+st+"|field-lost|"+cp, fmt.Sprintf("%s: %s before save, %s after load", d.Path, d.A, d.B))
	}
	return out
}

func firstFileDiff(a, b map[string]string) (file, what string) {
	names := map[string]bool{}
	for n := range a {
		names[n] = true
	}
	for n := range b {
		names[n] = true
	}
	var ns []string
	for n := range names {
		ns = append(ns, n)
	}
	sort.Strings(ns)
	for _, n := range ns {
		x, okx := a[n]
		y, oky := b[n]
		if !okx || !oky {
			return n, fmt.Sprintf("file %s present original=%v reloaded=%v", n, okx, oky)
		}
		if x != y {
			la, lb := strings.Split(x, "\n"), strings.Split(y, "\n")
			for i := 0; i < len(la) && i < len(lb); i++ {
				if la[i] != lb[i] {
					return n, fmt.Sprintf("%s line %d: %q vs %q", n, i+1, tail(la[i], 120), tail(lb[i], 120))
				}
			}
			return n, fmt.Sprintf("%s: %d vs %d lines", n, len(la), len(lb))
		}
	}
	return "", ""
}

func fileClass(n string) string {
	n = strings.TrimSuffix(n, ".v")
	n = strings.TrimRight(n, "0123456789")
	switch {
	case n == "arch_":
		return "arch"
	case n == "p":
		return "processor"
	}
	if strings.HasPrefix(n, "p") && (strings.HasSuffix(n, "rom") || strings.HasSuffix(n, "ram")) {
		return n[len(n)-3:]
	}
	return n
}

func makeJob(cs CaseSpec, bm *bondmachine.Bondmachine, s1 []byte, structuralOnly bool) childJob {
	job := childJob{JSON: s1, Sim: cs.Sim && !structuralOnly && simulable(bm), Render: !structuralOnly && !cs.NoRender}
	if cs.Child == "fresh" {
		job.LQ = cs.LQ
	}
	return job
}

type outcome struct {
	Fails       []failure
	Transient   []string
	Evals       int
	Key         string // digest of the saved form (distinct-machine counter)
	Nontrivial  bool
	RenderPanic string
	Rendered    bool
	Simulated   bool
	SavedBytes  int
	LoudRefusal bool
	Note        string
}

// checkBM applies the oracles to one machine. structuralOnly stops after oracles 1 and 2.
func checkBM(cs CaseSpec, bm *bondmachine.Bondmachine, structuralOnly bool) (oc outcome) {
	fail := func(sig, what string) { oc.Fails = append(oc.Fails, failure{sig, what}) }
	s1, err := saveBM(bm)
	oc.Evals++
	if err != nil {
		fail("C11|save|panic", "Jsoner/Marshal of the original failed: "+err.Error())
		return
	}
	oc.SavedBytes = len(s1)
	if d := os.Getenv("C11_DUMP_JSON"); d != "" { // lets a human feed the saved machine to the real CLIs
		os.WriteFile(d+"/saved.json", s1, 0o644)
	}
	h := sha256.Sum256(s1)
	oc.Key = hex.EncodeToString(h[:8])
	for _, d := range bm.Domains {
		if d != nil && len(d.Op) > 0 {
			oc.Nontrivial = true
		}
	}
	fo := flat(bm)

	var fl map[string]string
	var s2 []byte
	var s2err string
	var l1 *bondmachine.Bondmachine
	var cres childResult
	if cs.Child != "" {
		cres, err = runChild(makeJob(cs, bm, s1, structuralOnly))
		if err != nil {
			oc.Note = "harness: " + err.Error()
			fail("HARNESS|child", err.Error())
			return
		}
		if cres.LoadErr != "" {
			if cs.Child == "fresh-noranges" {
				// the opcode cannot be re-created without the range tables: refusing loudly is a correct answer
				oc.LoudRefusal = true
				return
			}
			fail("C11|load|panic", "loading in a fresh process failed: "+cres.LoadErr)
			return
		}
		fl, s2, s2err = cres.Flat, cres.Resave, cres.ResaveErr
		for _, p := range cres.Registry {
			fail("C11|opcode|not-the-registry-entry", "fresh process: "+p)
		}
	} else {
		l1, err = loadBM(s1)
		if err != nil {
			fail("C11|load|panic", "Unmarshal/Dejsoner failed: "+err.Error())
			return
		}
		fl = flat(l1)
		for _, p := range registryProblems(l1) {
			fail("C11|opcode|not-the-registry-entry", p)
		}
	}

	// oracle 1: structure
	diffs := diffFlat(fo, fl)
	structural := 0
	opDetail := ""
	if cs.Child == "fresh-noranges" {
		// the loading process was not given the -linear-data-range tables the saving process had
		opDetail = "|ranges-not-supplied"
	}
	for _, f := range classify("Bondmachine", fo, fl, diffs, opDetail) {
		if strings.HasPrefix(f.Sig, "transient|") {
			oc.Transient = append(oc.Transient, strings.TrimPrefix(f.Sig, "transient|"))
			continue
		}
		structural++
		oc.Fails = append(oc.Fails, f)
	}
	if l1 != nil {
		// cross-check of the flattening against reflect.DeepEqual on nil/empty-normalised copies
		ca, cb := cloneViaOriginal(bm), cloneViaOriginal(l1)
		normalise(reflect.ValueOf(ca), 0)
		normalise(reflect.ValueOf(cb), 0)
		if eq := reflect.DeepEqual(ca, cb); eq != (len(diffs) == 0) {
			fail("HARNESS|deepequal-disagrees", fmt.Sprintf("reflect.DeepEqual=%v but the flattening found %d differing paths", eq, len(diffs)))
		}
	}
	if structural > 0 || hasNilIface(fl) {
		return // the remaining oracles would only restate the same loss
	}

	// oracle 2: the saved form is a fixed point
	oc.Evals++
	if cs.Child == "" {
		s2, err = saveBM(l1)
		if err != nil {
			s2err = err.Error()
		}
	}
	if s2err != "" {
		fail("C11|save|panic-on-reloaded-machine", "saving the reloaded machine failed: "+s2err)
	} else if !bytes.Equal(s1, s2) {
		fail("C11|json|resave-differs|"+firstJSONDiff(s1, s2), fmt.Sprintf("save(load(save(m))) != save(m): %d vs %d bytes", len(s2), len(s1)))
	}
	if structuralOnly {
		return
	}

	// oracle 4 (before rendering: RenderFiles rewrites Shared_constraints/CpID of the original)
	if cs.Sim && simulable(bm) {
		oc.Evals++
		so := simDigests(bm)
		var sl []string
		if cs.Child != "" {
			sl = cres.Sim
		} else {
			sl = simDigests(l1)
		}
		oc.Simulated = true
		if !reflect.DeepEqual(so, sl) {
			t := 0
			for t < len(so) && t < len(sl) && so[t] == sl[t] {
				t++
			}
			fail("C11|sim|diverges-after-reload", fmt.Sprintf("simulator digests differ from tick %d (of %d)", t, simTicks))
		}
	}

	// oracle 3: Verilog
	if !cs.NoRender {
		oc.Evals++
		var fL map[string]string
		var errL error
		if cs.Child != "" {
			fL = cres.Files
			if cres.RenderErr != "" {
				errL = fmt.Errorf("%s", cres.RenderErr)
			}
		} else {
			l2, err := loadBM(s1)
			if err != nil {
				fail("C11|load|panic", "second load failed: "+err.Error())
				return
			}
			fL, errL = render(l2)
		}
		fO, errO := render(bm)
		switch {
		case errO != nil && errL != nil:
			oc.RenderPanic = errO.Error()
			if errO.Error() != errL.Error() {
				oc.RenderPanic += " / reloaded: " + errL.Error()
			}
		case errO != nil || errL != nil:
			fail("C11|verilog|generator-fails-on-one-side-only", fmt.Sprintf("original: %v; reloaded: %v", errO, errL))
		default:
			oc.Rendered = true
			if file, what := firstFileDiff(fO, fL); file != "" {
				fail("C11|verilog|differs-after-reload|"+fileClass(file), what)
			}
		}
	}
	return
}

// cloneViaOriginal gives a deep copy of bm that shares nothing mutable with it except opcode /
// shared-object values (which are immutable registry entries), so it can be normalised in place.
func cloneViaOriginal(bm *bondmachine.Bondmachine) *bondmachine.Bondmachine {
	c := *bm
	c.Domains = nil
	if bm.Domains != nil {
		c.Domains = make([]*procbuilder.Machine, len(bm.Domains))
	}
	for i, d := range bm.Domains {
		if d == nil {
			continue
		}
		m := *d
		m.Modes = cpS(d.Modes)
		m.Slocs = cpS(d.Slocs)
		m.Vars = cpS(d.Vars)
		if d.Op != nil {
			m.Op = append([]procbuilder.Opcode{}, d.Op...)
		}
		c.Domains[i] = &m
	}
	c.Processors = cpI(bm.Processors)
	c.Links = cpI(bm.Links)
	if bm.Internal_inputs != nil {
		c.Internal_inputs = append([]bondmachine.Bond{}, bm.Internal_inputs...)
	}
	if bm.Internal_outputs != nil {
		c.Internal_outputs = append([]bondmachine.Bond{}, bm.Internal_outputs...)
	}
	if bm.Shared_objects != nil {
		c.Shared_objects = append([]bondmachine.Shared_instance{}, bm.Shared_objects...)
	}
	if bm.Shared_links != nil {
		c.Shared_links = make([]bondmachine.Shared_instance_list, len(bm.Shared_links))
		for i, l := range bm.Shared_links {
			if l != nil {
				c.Shared_links[i] = append(bondmachine.Shared_instance_list{}, l...)
			}
		}
	}
	return &c
}

func cpS(s []string) []string {
	if s == nil {
		return nil
	}
	return append([]string{}, s...)
}

func cpI(s []int) []int {
	if s == nil {
		return nil
	}
	return append([]int{}, s...)
}

// firstJSONDiff names the first top-level key whose value differs.
func firstJSONDiff(a, b []byte) string {
	var ma, mb map[string]json.RawMessage
	if json.Unmarshal(a, &ma) != nil || json.Unmarshal(b, &mb) != nil {
		return "unparsable"
	}
	var ks []string
	for k := range ma {
		ks = append(ks, k)
	}
	for k := range mb {
		if _, ok := ma[k]; !ok {
			ks = append(ks, k)
		}
	}
	sort.Strings(ks)
	for _, k := range ks {
		if !bytes.Equal(ma[k], mb[k]) {
			return k
		}
	}
	return "formatting"
}

// checkSingle applies oracles 1 and 2 to the single-machine JSON form (cmd/procbuilder, bondgo).
func checkSingle(m *procbuilder.Machine) (fails []failure, evals int) {
	evals = 2
	s1, err := saveMachine(m)
	if err != nil {
		return []failure{{"C11|save|panic", "Machine.Jsoner failed: " + err.Error()}}, evals
	}
	l, err := loadMachine(s1)
	if err != nil {
		return []failure{{"C11|load|panic", "Machine Dejsoner failed: " + err.Error()}}, evals
	}
	fo, fl := flat(m), flat(l)
	for _, f := range classify("Machine", fo, fl, diffFlat(fo, fl), "") {
		if !strings.HasPrefix(f.Sig, "transient|") {
			fails = append(fails, f)
		}
	}
	if len(fails) > 0 {
		return
	}
	s2, err := saveMachine(l)
	if err != nil {
		fails = append(fails, failure{"C11|save|panic-on-reloaded-machine", err.Error()})
	} else if !bytes.Equal(s1, s2) {
		fails = append(fails, failure{"C11|json|resave-differs|" + firstJSONDiff(s1, s2), "single machine: save(load(save(m))) != save(m)"})
	}
	return
}
