package main

// Case descriptions (pure data, replayable) and the builder that turns a description into a live
// BondMachine through the real construction API / the real basm pipeline.

import (
	"fmt"
	"os/exec"
	"sort"
	"strconv"
	"strings"
	"sync"

	"verif/lib/bmgen"

	"github.com/BondMachineHQ/BondMachine/pkg/basm"
	"github.com/BondMachineHQ/BondMachine/pkg/bminfo"
	"github.com/BondMachineHQ/BondMachine/pkg/bmnumbers"
	"github.com/BondMachineHQ/BondMachine/pkg/bondmachine"
	"github.com/BondMachineHQ/BondMachine/pkg/procbuilder"
)

type ProcSpec struct {
	Spec     bmgen.ArchSpec `json:"spec"`
	WordPlus int            `json:"word_plus,omitempty"` // >0: WordSize = Max_word()+WordPlus
	Prog     string         `json:"prog,omitempty"`      // "" none | "enc" one encoded word per opcode | "asm"
	Asm      []string       `json:"asm,omitempty"`
	Vars     bool           `json:"vars,omitempty"`
}

type CaseSpec struct {
	Class       string          `json:"class"`
	Name        string          `json:"name"`
	Basm        string          `json:"basm,omitempty"`
	Procs       []ProcSpec      `json:"procs,omitempty"`
	ProcDomains []int           `json:"proc_domains,omitempty"` // processor -> domain (default: one processor per domain)
	ExtIn       int             `json:"ext_in,omitempty"`
	ExtOut      int             `json:"ext_out,omitempty"`
	Bonds       [][2]string     `json:"bonds,omitempty"`
	SOs         []string        `json:"sos,omitempty"`      // constructor strings given to Add_shared_objects
	SOLit       []string        `json:"so_lit,omitempty"`   // shared objects built as struct literals
	SOLinks     [][2]int        `json:"so_links,omitempty"` // processor, shared object
	LQ          map[int]float64 `json:"lq_ranges,omitempty"`
	Child       string          `json:"child,omitempty"` // "" in-process | "fresh" | "fresh-noranges"
	Sim         bool            `json:"sim,omitempty"`
	NoRender    bool            `json:"no_render,omitempty"`
	Field       string          `json:"field,omitempty"` // reflection leaf to mutate on the base machine
}

var (
	staticOps   []string // names registered by procbuilder's init(), before any dynamic creation
	buildMu     sync.Mutex
	haveFlopoco bool
)

func initStatic() {
	for _, op := range procbuilder.Allopcodes {
		staticOps = append(staticOps, op.Op_get_name())
	}
	_, err := exec.LookPath("flopoco")
	haveFlopoco = err == nil
}

// opFamily names the root-cause class of an opcode name: "static", the dynamic family, or "unknown".
func opFamily(name string) string {
	for _, s := range staticOps {
		if s == name {
			return "static"
		}
	}
	for _, d := range procbuilder.AllDynamicalInstructions {
		if d.MatchName(name) {
			return d.GetName()
		}
	}
	return "unknown"
}

// setLQRanges does what the CLIs do for -linear-data-range (minus reading the files): fill the
// bmnumbers range table and hand it to procbuilder's DynLinearQuantizer.
func setLQRanges(r map[int]float64) {
	var lq *map[int]bmnumbers.LinearDataRange
	for _, t := range bmnumbers.AllDynamicalTypes {
		if t.GetName() == "dyn_linear_quantizer" {
			lq = t.(bmnumbers.DynLinearQuantizer).Ranges
		}
	}
	if lq == nil {
		m := map[int]bmnumbers.LinearDataRange{}
		lq = &m
	}
	for k, v := range r {
		(*lq)[k] = bmnumbers.LinearDataRange{Max: v}
	}
	for i, t := range procbuilder.AllDynamicalInstructions {
		if t.GetName() == "dyn_linear_quantizer" {
			d := t.(procbuilder.DynLinearQuantizer)
			d.Ranges = lq
			procbuilder.AllDynamicalInstructions[i] = d
		}
	}
}

func basmBM(src string) (bm *bondmachine.Bondmachine, err error) {
	defer func() {
		if p := recover(); p != nil {
			err = fmt.Errorf("basm panic: %v", p)
		}
	}()
	bi := new(basm.BasmInstance)
	bi.BMinfo = new(bminfo.BMinfo)
	bi.BasmInstanceInit(nil)
	if err := bi.ParseAssemblyStringDefault(src); err != nil {
		return nil, fmt.Errorf("basm parse: %v", err)
	}
	if err := bi.RunAssembler(); err != nil {
		return nil, fmt.Errorf("basm run: %v", err)
	}
	if err := bi.Assembler2BondMachine(); err != nil {
		return nil, fmt.Errorf("basm 2bm: %v", err)
	}
	bm = bi.GetBondMachine()
	if bm == nil {
		return nil, fmt.Errorf("basm produced no machine")
	}
	return bm, nil
}

func bin(v, w int) string {
	s := strconv.FormatInt(int64(v), 2)
	for len(s) < w {
		s = "0" + s
	}
	return s
}

func buildMachine(p ProcSpec) (*procbuilder.Machine, error) {
	p.Spec.Modes = append([]string{}, p.Spec.Modes...) // NewMachine keeps the slice: never share it between builds
	p.Spec.Ops = append([]string{}, p.Spec.Ops...)
	m, err := bmgen.NewMachine(p.Spec)
	if err != nil {
		return nil, err
	}
	if p.WordPlus > 0 {
		m.WordSize = uint8(m.Max_word() + p.WordPlus)
	}
	w := m.Max_word()
	switch p.Prog {
	case "enc":
		ob := m.Opcodes_bits()
		for i := range m.Op {
			s := bin(i, ob)
			for len(s) < w {
				s += "0"
			}
			m.Slocs = append(m.Slocs, s)
		}
	case "asm":
		prog, err := m.Arch.Assembler([]byte(strings.Join(p.Asm, "\n") + "\n"))
		if err != nil {
			return nil, fmt.Errorf("assembler: %v", err)
		}
		m.Program = prog
	}
	if p.Vars {
		m.Vars = []string{bin(1, w), bin(2, w)}
	}
	return m, nil
}

func literalSO(kind string) (bondmachine.Shared_instance, error) {
	switch kind {
	case "vtextmem-empty":
		return bondmachine.Vtextmem_instance{Shared_element: bondmachine.Vtextmem{}, Boxes: []bondmachine.GraphBox{}}, nil
	}
	return nil, fmt.Errorf("unknown literal shared object %q", kind)
}

// buildBM constructs the machine of a case. Not safe for concurrent use (the opcode registry is global).
func buildBM(cs CaseSpec) (*bondmachine.Bondmachine, error) {
	buildMu.Lock()
	defer buildMu.Unlock()
	if cs.LQ != nil {
		setLQRanges(cs.LQ)
	}
	var b *bondmachine.Bondmachine
	if cs.Basm != "" {
		var err error
		if b, err = basmBM(cs.Basm); err != nil {
			return nil, err
		}
	} else {
		if len(cs.Procs) == 0 {
			return nil, fmt.Errorf("no processors")
		}
		b = new(bondmachine.Bondmachine)
		b.Rsize = cs.Procs[0].Spec.Rsize
		b.Init()
		for i, p := range cs.Procs {
			m, err := buildMachine(p)
			if err != nil {
				return nil, fmt.Errorf("domain %d: %v", i, err)
			}
			b.Domains = append(b.Domains, m)
		}
		pd := cs.ProcDomains
		if pd == nil {
			for i := range cs.Procs {
				pd = append(pd, i)
			}
		}
		for _, d := range pd {
			if _, err := b.Add_processor(d); err != nil {
				return nil, err
			}
		}
		for i := 0; i < cs.ExtIn; i++ {
			b.Add_input()
		}
		for i := 0; i < cs.ExtOut; i++ {
			b.Add_output()
		}
		for _, bd := range cs.Bonds {
			before := b.EnumBonds()
			b.Add_bond([]string{bd[0], bd[1]})
			if b.EnumBonds() != before+1 {
				return nil, fmt.Errorf("bond %v not created", bd)
			}
		}
		for _, s := range cs.SOs {
			before := len(b.Shared_objects)
			b.Add_shared_objects([]string{s})
			if len(b.Shared_objects) != before+1 {
				return nil, fmt.Errorf("shared object %q not accepted", s)
			}
		}
		for _, k := range cs.SOLit {
			inst, err := literalSO(k)
			if err != nil {
				return nil, err
			}
			b.Shared_objects = append(b.Shared_objects, inst)
		}
		for _, l := range cs.SOLinks {
			before := len(b.Shared_links[l[0]])
			b.Connect_processor_shared_object([]string{strconv.Itoa(l[0]), strconv.Itoa(l[1])})
			if len(b.Shared_links[l[0]]) != before+1 {
				return nil, fmt.Errorf("link %v not created", l)
			}
		}
	}
	return b, nil
}

// ---- enumeration -----------------------------------------------------------------------------

var baseOps = []string{"i2r", "inc", "j", "r2o"}

var soOps = map[string][]string{
	"sharedmem": {"r2s", "s2r"},
	"channel":   {"wrd", "wwr", "chc", "chw"},
	"barrier":   {"hit"},
	"lfsr8":     {"lfsr82r"},
	"vtextmem":  {"r2v", "r2vri"},
	"queue":     {"q2r", "r2q"},
	"stack":     {"t2r", "r2t"},
	"uart":      {"r2u", "u2r"},
	"kbd":       {"k2r"},
}

var soCtor = map[string][]string{
	"sharedmem": {"sharedmem:4", "sharedmem:16"},
	"channel":   {"channel:", "channel:x"},
	"barrier":   {"barrier:10", "barrier:100"},
	"lfsr8":     {"lfsr8:1", "lfsr8:200"},
	"vtextmem":  {"vtextmem:0:0:0:4:2", "vtextmem:0:0:0:4:2:1:5:0:4:2"},
	"queue":     {"queue:2", "queue:8"},
	"stack":     {"stack:2", "stack:8"},
	"uart":      {"uart:9600:4", "uart:115200:16"},
	"kbd":       {"kbd:4", "kbd:16"},
}

// parameter universe for the constructor-string closure (prefix × parameter, all combinations)
var soParams = []string{"", "0", "1", "8", "255", "256", "300", "-1", "x", "1:2", "9600:8", "x:y", "1:2:3",
	"0:0:0:1:1", "0:0:0:1:1:1:0:0:2:2", "0:0:0:1:x", "1:2:3:4", "007", "+5", " 5"}

type dynFamily struct {
	NoRender bool // generator cannot run in this environment
	Family   string
	Sets     [][]string // one list of opcode names per parameter choice
	Rsize    []uint8
	LQ       map[int]float64
}

func dynFamilies() []dynFamily {
	fams := []dynFamily{
		{Family: "dyn_call", Sets: [][]string{{"callo8stk", "calla8stk", "ret8stk"}, {"callo16s_b", "calla16s_b", "ret16s_b"}}, Rsize: []uint8{8, 16}},
		{Family: "dyn_fixed_point", Sets: [][]string{{"multfps8f3", "addfps8f3", "divfps8f3"}, {"multfps16f8", "addfps16f8", "divfps16f8"}}, Rsize: []uint8{8, 16}},
		// FXP.ExtraFiles reads /tmp/fxpcode/*.v and calls log.Fatal when absent (pkg/procbuilder/dynop_fxp.go:399):
		// rendering would terminate the process, so only the structural/JSON oracles apply
		{Family: "dyn_fxp", NoRender: true, Sets: [][]string{{"multfxps8f3", "addfxps8f3", "divfxps8f3"}, {"multfxps16f8", "addfxps16f8", "divfxps16f8"}}, Rsize: []uint8{8, 16}},
		{Family: "dyn_rset", Sets: [][]string{{"rsets4"}, {"rsets16"}}, Rsize: []uint8{8, 16}},
		{Family: "dyn_stack", Sets: [][]string{{"push8st", "pull8st"}, {"push16st_b", "pull16st_b"}}, Rsize: []uint8{8, 16}},
		{Family: "dyn_linear_quantizer", Sets: [][]string{{"multlqs8t1", "addlqs8t1", "divlqs8t1"}, {"multlqs16t2", "addlqs16t2", "divlqs16t2"}}, Rsize: []uint8{8, 16},
			LQ: map[int]float64{1: 4, 2: 100}},
	}
	if haveFlopoco {
		fams = append(fams, dynFamily{Family: "dyn_flopoco", Sets: [][]string{{"multflpe5f10", "addflpe5f10", "divflpe5f10"}, {"multflpe8f23", "addflpe8f23", "divflpe8f23"}}, Rsize: []uint8{18, 34}})
	}
	return fams
}

func arch(rsize uint8, ops []string, mode string, threaded int) bmgen.ArchSpec {
	return bmgen.ArchSpec{Rsize: rsize, R: 2, N: 1, M: 1, L: 3, O: 5, Ops: ops, Modes: []string{mode}, Threaded: threaded}
}

func single(class, name string, p ProcSpec) CaseSpec {
	cs := CaseSpec{Class: class, Name: name, Procs: []ProcSpec{p}}
	for i := 0; i < int(p.Spec.N); i++ {
		cs.ExtIn++
		cs.Bonds = append(cs.Bonds, [2]string{"i" + strconv.Itoa(i), "p0i" + strconv.Itoa(i)})
	}
	for i := 0; i < int(p.Spec.M); i++ {
		cs.ExtOut++
		cs.Bonds = append(cs.Bonds, [2]string{"o" + strconv.Itoa(i), "p0o" + strconv.Itoa(i)})
	}
	return cs
}

type variant struct {
	mode     string
	threaded int
	wplus    int
	prog     bool
}

func (v variant) String() string {
	return fmt.Sprintf("%s/t%d/w+%d/prog=%v", v.mode, v.threaded, v.wplus, v.prog)
}

func variants(full bool) []variant {
	var out []variant
	if full {
		for _, m := range []string{"ha", "hy", "vn"} {
			for t := 0; t <= 2; t++ {
				for _, w := range []int{0, 3} {
					for _, p := range []bool{true, false} {
						out = append(out, variant{m, t, w, p})
					}
				}
			}
		}
		return out
	}
	// reduced product: every parameter takes every value, one at a time around the base point
	return []variant{{"ha", 0, 0, true}, {"hy", 0, 0, true}, {"vn", 0, 0, true}, {"ha", 1, 0, true}, {"ha", 2, 0, true},
		{"ha", 0, 3, true}, {"ha", 0, 0, false}, {"vn", 2, 3, false}}
}

func withVariant(ops []string, rsize uint8, v variant) ProcSpec {
	p := ProcSpec{Spec: arch(rsize, ops, v.mode, v.threaded), WordPlus: v.wplus}
	if v.prog {
		p.Prog = "enc"
		p.Vars = true
	}
	return p
}

const (
	srcA    = "%section prog .romtext iomode:async\n\tentry _start\n_start:\n\trset r0, 5\nloop:\n\tinc r0\n\tr2o r0, o0\n\tj loop\n%endsection\n\n%meta cpdef p0 romcode: prog, ramsize:8\n%meta ioatt l1 cp: p0, index:0, type:output\n%meta ioatt l1 cp: bm, index:0, type:output\n%meta bmdef global registersize:8\n"
	srcLit  = "%section prog .romtext iomode:async\n\tentry _start\n_start:\n\trset r0, 0x20\n\trset r1, 0x10\n\tadd r0, r1\n\tr2o r0, o0\n\tj _start\n%endsection\n\n%meta cpdef p0 romcode: prog, ramsize:8\n%meta ioatt l1 cp: p0, index:0, type:output\n%meta ioatt l1 cp: bm, index:0, type:output\n%meta bmdef global registersize:8\n"
	srcTwo  = "%section prod .romtext iomode:sync\n\tentry _start\n_start:\n\tclr r0\nloop:\n\tinc r0\n\tr2owa r0, o0\n\tj loop\n%endsection\n%section cons .romtext iomode:sync\n\tentry _start\n_start:\n\ti2rw r0, i0\n\tr2owa r0, o0\n\tj _start\n%endsection\n\n%meta cpdef p0 romcode: prod, ramsize:8\n%meta cpdef p1 romcode: cons, ramsize:8\n%meta ioatt l1 cp: p0, index:0, type:output\n%meta ioatt l1 cp: p1, index:0, type:input\n%meta ioatt l2 cp: p1, index:0, type:output\n%meta ioatt l2 cp: bm, index:0, type:output\n%meta bmdef global registersize:8\n"
	srcFrag = "%fragment inc1 resin:r0 resout:r0\n\tinc r0\n%endfragment\n%fragment sum resin:r0:r1 resout:r0\n\tadd r0, r1\n%endfragment\n\n%meta fidef f1 fragment:inc1\n%meta fidef f2 fragment:inc1\n%meta fidef f3 fragment:sum\n%meta filinkdef la type:fl\n%meta filinkdef lb type:fl\n%meta filinkdef lc type:fl\n%meta filinkdef ld type:fl\n%meta filinkdef le type:fl\n%meta filinkatt la fi:ext, type:input, index:0\n%meta filinkatt la fi:f1, type:input, index:0\n%meta filinkatt lb fi:ext, type:input, index:1\n%meta filinkatt lb fi:f2, type:input, index:0\n%meta filinkatt lc fi:f1, type:output, index:0\n%meta filinkatt lc fi:f3, type:input, index:0\n%meta filinkatt ld fi:f2, type:output, index:0\n%meta filinkatt ld fi:f3, type:input, index:1\n%meta filinkatt le fi:f3, type:output, index:0\n%meta filinkatt le fi:ext, type:output, index:0\n%meta cpdef cpa fragcollapse:f1:f2:f3\n%meta bmdef global registersize:8\n"
	srcDyn  = "%section prog .romtext iomode:async\n\tentry _start\n_start:\n\trsets4 r0, 5\nloop:\n\tinc r0\n\tr2o r0, o0\n\tj loop\n%endsection\n\n%meta cpdef p0 romcode: prog, ramsize:8\n%meta ioatt l1 cp: p0, index:0, type:output\n%meta ioatt l1 cp: bm, index:0, type:output\n%meta bmdef global registersize:8\n"
	srcSO   = "%section prod .romtext iomode:sync\n\tentry _start\n_start:\n\tclr r0\nloop:\n\tinc r0\n\tr2q r0, q0\n\tj loop\n%endsection\n%section cons .romtext iomode:sync\n\tentry _start\n_start:\n\tq2r r0, q0\n\tr2o r0, o0\n\tj _start\n%endsection\n\n%meta cpdef p0 romcode: prod, ramsize:8\n%meta cpdef p1 romcode: cons, ramsize:8\n%meta sodef fifo constraint:queue:4\n%meta soatt fifo cp:p0, index:0\n%meta soatt fifo cp:p1, index:0\n%meta ioatt l2 cp: p1, index:0, type:output\n%meta ioatt l2 cp: bm, index:0, type:output\n%meta bmdef global registersize:8\n"
)

type topo struct {
	Name          string
	ExtIn, ExtOut int
	Bonds         [][2]string
}

var topologies = []topo{
	{"ext-chain-unconnected-inputs", 1, 1, [][2]string{{"i0", "p0i0"}, {"p0o0", "p1i0"}, {"p1o0", "o0"}}},
	{"fanout", 1, 2, [][2]string{{"i0", "p0i0"}, {"i0", "p1i0"}, {"p0o0", "p1i1"}, {"p0o0", "o0"}, {"p1o0", "o1"}}},
	{"closed-ring", 0, 0, [][2]string{{"p0o0", "p1i0"}, {"p1o0", "p0i0"}}},
}

func twoProc(ops0, ops1 []string, t topo) CaseSpec {
	mk := func(ops []string) ProcSpec {
		s := arch(8, ops, "ha", 0)
		s.N, s.M = 2, 2
		return ProcSpec{Spec: s, Prog: "enc", Vars: true}
	}
	return CaseSpec{Procs: []ProcSpec{mk(ops0), mk(ops1)}, ExtIn: t.ExtIn, ExtOut: t.ExtOut, Bonds: t.Bonds}
}

func soKinds() []string {
	var ks []string
	for _, s := range bondmachine.Allshared {
		ks = append(ks, s.Shr_get_name())
	}
	return ks
}

// baseForFields is the machine every reflection mutation starts from: two processors, a shared
// object attached to both, external IO, programs and data present.
func baseForFields() CaseSpec {
	cs := twoProc(baseOps, baseOps, topologies[0]) // only sim-faithful opcodes: the influence test simulates it
	cs.Procs[1].Spec.Threaded = 1
	cs.Procs[1].Spec.Modes = []string{"hy"}
	cs.SOs = []string{"queue:4"}
	cs.SOLinks = [][2]int{{0, 0}, {1, 0}}
	return cs
}

func simSystems() []CaseSpec {
	var out []CaseSpec
	cnt := []string{"clr r0", "inc r0", "r2o r0 o0", "j 1"}
	fwd := []string{"i2r r0 i0", "inc r0", "r2o r0 o0", "j 0"}
	alu := []string{"rset r0 5", "rset r1 3", "add r0 r1", "mult r0 r1", "xor r0 r1", "dec r1", "jz r1 0", "r2o r0 o0", "j 2"}
	opsOf := func(prog []string) []string {
		seen := map[string]bool{}
		var ops []string
		for _, l := range prog {
			n := strings.Fields(l)[0]
			if !seen[n] {
				seen[n] = true
				ops = append(ops, n)
			}
		}
		sort.Strings(ops)
		return ops
	}
	mk := func(prog []string, rsize uint8, n, m uint8) ProcSpec {
		s := arch(rsize, opsOf(prog), "ha", 0)
		s.N, s.M, s.L = n, m, 0
		return ProcSpec{Spec: s, Prog: "asm", Asm: prog}
	}
	for _, rs := range []uint8{8, 16} {
		out = append(out, CaseSpec{Class: "sim", Name: fmt.Sprintf("counter/rsize%d", rs), Procs: []ProcSpec{mk(cnt, rs, 0, 1)},
			ExtOut: 1, Bonds: [][2]string{{"p0o0", "o0"}}, Sim: true})
		out = append(out, CaseSpec{Class: "sim", Name: fmt.Sprintf("alu/rsize%d", rs), Procs: []ProcSpec{mk(alu, rs, 0, 1)},
			ExtOut: 1, Bonds: [][2]string{{"p0o0", "o0"}}, Sim: true})
		out = append(out, CaseSpec{Class: "sim", Name: fmt.Sprintf("producer-consumer/rsize%d", rs), Procs: []ProcSpec{mk(cnt, rs, 0, 1), mk(fwd, rs, 1, 1)},
			ExtOut: 1, Bonds: [][2]string{{"p0o0", "p1i0"}, {"p1o0", "o0"}}, Sim: true})
		out = append(out, CaseSpec{Class: "sim", Name: fmt.Sprintf("fanout-two-consumers/rsize%d", rs), Procs: []ProcSpec{mk(cnt, rs, 0, 1), mk(fwd, rs, 1, 1), mk(fwd, rs, 1, 1)},
			ExtOut: 2, Bonds: [][2]string{{"p0o0", "p1i0"}, {"p0o0", "p2i0"}, {"p1o0", "o0"}, {"p2o0", "o1"}}, Sim: true})
		out = append(out, CaseSpec{Class: "sim", Name: fmt.Sprintf("shared-domain-two-processors/rsize%d", rs), Procs: []ProcSpec{mk(cnt, rs, 0, 1)}, ProcDomains: []int{0, 0},
			ExtOut: 2, Bonds: [][2]string{{"p0o0", "o0"}, {"p1o0", "o1"}}, Sim: true})
	}
	return out
}

// enumerate lists every case of the tier, in a fixed order.
func enumerate(thorough bool) []CaseSpec {
	var out []CaseSpec
	add := func(cs CaseSpec) { out = append(out, cs) }

	// (a) front ends
	for _, fe := range []struct{ n, src string }{{"basm:single-cp", srcA}, {"basm:literals", srcLit}, {"basm:two-cps", srcTwo},
		{"basm:fragments", srcFrag}, {"basm:dynamic-opcode", srcDyn}, {"basm:shared-object", srcSO}} {
		add(CaseSpec{Class: "frontend", Name: fe.n, Basm: fe.src, Sim: true})
		add(CaseSpec{Class: "frontend", Name: fe.n + "/fresh-process", Basm: fe.src, Sim: true, Child: "fresh"})
	}

	// (b1) every static opcode alone; (b2) all together
	vsSingle := variants(thorough)
	rsSingle := []uint8{8}
	if thorough {
		rsSingle = []uint8{8, 32}
	}
	for _, op := range staticOps {
		for _, rs := range rsSingle {
			for _, v := range vsSingle {
				add(single("opcode", fmt.Sprintf("%s/rsize%d/%s", op, rs, v.String()), withVariant([]string{op}, rs, v)))
			}
		}
	}
	for _, v := range variants(true) {
		if !thorough && !(v.wplus == 0 && v.prog) && !(v.mode == "ha" && v.threaded == 0) {
			continue // quick: modes × threaded at the base word size, word size × program at the base mode
		}
		add(single("opcode", "all-static/"+v.String(), withVariant(staticOps, 8, v)))
	}
	// shapes of the all-opcodes machine (mode ha)
	rss := []uint8{8, 16, 32}
	if !thorough {
		rss = []uint8{8, 32}
	}
	for _, rs := range rss {
		for _, r := range []uint8{1, 3} {
			for _, nm := range [][2]uint8{{0, 0}, {1, 1}, {2, 3}} {
				for _, l := range []uint8{0, 3} {
					for _, o := range []uint8{2, 6} {
						if !thorough && !((r == 1) == (l == 0) && (l == 0) == (o == 2)) {
							continue // quick: the two extreme corners per (rsize, io shape)
						}
						p := ProcSpec{Spec: bmgen.ArchSpec{Rsize: rs, R: r, N: nm[0], M: nm[1], L: l, O: o, Ops: staticOps, Modes: []string{"ha"}}, Prog: "enc", Vars: true}
						add(single("shape", fmt.Sprintf("all-static/rsize%d/R%d/N%dM%d/L%d/O%d", rs, r, nm[0], nm[1], l, o), p))
					}
				}
			}
		}
	}

	// (b3) dynamic families: each opcode alone and each family set together, two parameter choices,
	// loaded in-process and in a fresh process
	var allDyn []string
	for _, f := range dynFamilies() {
		for si, set := range f.Sets {
			groups := [][]string{}
			for _, n := range set {
				groups = append(groups, []string{n})
			}
			if len(set) > 1 {
				groups = append(groups, set)
			}
			for _, g := range groups {
				ops := append(append([]string{}, baseOps...), g...)
				children := []string{"", "fresh"}
				if f.LQ != nil {
					children = append(children, "fresh-noranges")
				}
				vs := []variant{{"ha", 0, 0, true}}
				if len(g) > 1 || len(set) == 1 {
					vs = append(vs, variant{"hy", 1, 3, true}, variant{"vn", 2, 0, false})
				}
				if thorough {
					vs = variants(true)
				}
				for _, v := range vs {
					for _, ch := range children {
						cs := single("dynamic", fmt.Sprintf("%s/%s/%s/%s", f.Family, strings.Join(g, "+"), v.String(), map[string]string{"": "in-process", "fresh": "fresh-process", "fresh-noranges": "fresh-process-without-ranges"}[ch]),
							withVariant(ops, f.Rsize[si], v))
						cs.Child = ch
						cs.LQ = f.LQ
						cs.NoRender = f.NoRender
						add(cs)
					}
				}
			}
			if f.LQ == nil && !f.NoRender && f.Rsize[si] == 8 {
				allDyn = append(allDyn, set...)
			}
		}
	}
	for _, ch := range []string{"", "fresh"} {
		cs := single("dynamic", "all-static+all-dynamic/"+map[string]string{"": "in-process", "fresh": "fresh-process"}[ch],
			withVariant(append(append([]string{}, staticOps...), allDyn...), 8, variant{"ha", 0, 0, true}))
		cs.Child = ch
		add(cs)
	}

	// (b3') dynamic opcodes that come into being LATE: names no earlier case uses, so the opcode is first created when
	// this case builds its machine — after the process has loaded hundreds of machines (every other dynamic
	// opcode is registered by the fresh-process prefetch before the first load happens)
	for _, g := range [][]string{{"rsets24"}, {"pull6lt", "push6lt"}, {"calla6lt", "callo6lt", "ret6lt"}, {"addfps12f6", "divfps12f6", "multfps12f6"}} {
		ops := append(append([]string{}, baseOps...), g...)
		rs := uint8(8)
		if strings.HasPrefix(g[0], "addfps") {
			rs = 16
		}
		if g[0] == "rsets24" {
			rs = 32
		}
		add(single("dynamic-late", strings.Join(g, "+")+"/created-after-other-machines-were-loaded", withVariant(ops, rs, variant{"ha", 0, 0, true})))
	}

	// (b4) shared objects
	for _, kind := range soKinds() {
		ops := append(append([]string{}, baseOps...), soOps[kind]...)
		for _, ctor := range soCtor[kind] {
			for _, t := range topologies {
				for _, att := range [][][2]int{{{0, 0}}, {{0, 0}, {1, 0}}} {
					cs := twoProc(ops, ops, t)
					cs.Class, cs.Name = "shared", fmt.Sprintf("%s/%s/attached-to-%d", ctor, t.Name, len(att))
					cs.SOs = []string{ctor}
					cs.SOLinks = att
					add(cs)
				}
			}
		}
		// two instances of the same kind on one processor
		if len(soCtor[kind]) == 2 {
			cs := twoProc(ops, ops, topologies[0])
			cs.Class, cs.Name = "shared", kind+"/two-instances"
			cs.SOs = soCtor[kind]
			cs.SOLinks = [][2]int{{0, 0}, {0, 1}, {1, 1}}
			add(cs)
			// ... attached in CROSSED order: processor 1 takes instance 1 first, then instance 0 (the position of a
			// shared object in a processor's list is that processor's local index for it: order is content)
			cx := twoProc(ops, ops, topologies[0])
			cx.Class, cx.Name = "shared", kind+"/two-instances-attached-in-crossed-order"
			cx.SOs = soCtor[kind]
			cx.SOLinks = [][2]int{{0, 0}, {0, 1}, {1, 1}, {1, 0}}
			add(cx)
		}
	}
	{ // every kind at once
		ops := append([]string{}, baseOps...)
		var sos []string
		var links [][2]int
		for i, kind := range soKinds() {
			ops = append(ops, soOps[kind]...)
			sos = append(sos, soCtor[kind][1]) // the second vtextmem constructor has a box for each processor
			links = append(links, [2]int{i % 2, i}, [2]int{1, i})
		}
		seen := map[[2]int]bool{}
		var l2 [][2]int
		for _, l := range links {
			if !seen[l] {
				seen[l] = true
				l2 = append(l2, l)
			}
		}
		for _, t := range topologies {
			cs := twoProc(ops, ops, t)
			cs.Class, cs.Name = "shared", "all-kinds/"+t.Name
			cs.SOs, cs.SOLinks = sos, l2
			add(cs)
		}
	}
	// constructor-string closure: every prefix × parameter string that Instantiate accepts
	for _, kind := range soKinds() {
		for _, p := range soParams {
			s := kind + ":" + p
			if _, ok := instantiateSO(s); !ok {
				continue
			}
			ops := append(append([]string{}, baseOps...), soOps[kind]...)
			cs := twoProc(ops, ops, topologies[0])
			cs.Class, cs.Name = "shared-ctor", s
			cs.SOs = []string{s}
			cs.SOLinks = [][2]int{{0, 0}}
			add(cs)
		}
	}
	{ // shared object values that only a struct literal can produce
		ops := append(append([]string{}, baseOps...), soOps["vtextmem"]...)
		cs := twoProc(ops, ops, topologies[0])
		cs.Class, cs.Name = "shared-literal", "vtextmem-without-boxes"
		cs.SOLit = []string{"vtextmem-empty"}
		cs.SOLinks = [][2]int{{0, 0}}
		add(cs)
	}

	// (b5) simulated systems
	for _, cs := range simSystems() {
		add(cs)
		c2 := cs
		c2.Name += "/fresh-process"
		c2.Child = "fresh"
		add(c2)
	}
	return out
}
