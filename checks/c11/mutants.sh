#!/bin/bash
# Detection demo for C11: builds property-breaking variants of /repo files in a scratch dir and runs the
# check on each through VERIF_OVERLAY (never touches /repo). Usage: checks/c11/mutants.sh [quick|thorough]
set -u
tier="${1:-quick}"
d=$(mktemp -d /tmp/c11mut.XXXXXX)
trap 'rm -rf "$d"' EXIT
mkdir -p "$d/m1" "$d/m2" "$d/m3" "$d/m4" "$d/fix"
python3 - "$d" <<'EOF'
import json, sys
d = sys.argv[1]
mach = open('/repo/pkg/procbuilder/machine.go').read()
conp = open('/repo/pkg/procbuilder/conproc.go').read()
bm = open('/repo/pkg/bondmachine/bondmachine.go').read()
vt = open('/repo/pkg/bondmachine/shr_vtextmem.go').read()
def put(name, files):
    rep = {}
    for path, text in files.items():
        out = d + '/' + name + '/' + path.split('/')[-1]
        open(out, 'w').write(text)
        rep[path] = out
    json.dump({"Replace": rep}, open(d + '/' + name + '/ov.json', 'w'))
def sub(s, old, new):
    assert s.count(old) == 1, old
    return s.replace(old, new)
lookup = '''		EventuallyCreateInstruction(opname)

		for _, op := range Allopcodes {
			if op.Op_get_name() == opname {
				result.Op[i] = op
			}
		}
'''
# m1: Machine Dejsoner forgets Threaded
put('m1', {'/repo/pkg/procbuilder/machine.go': sub(mach, "\tresult.Threaded = machj.Threaded\n", "")})
# m2: new exported field on Conproc, not added to Machine_json
put('m2', {'/repo/pkg/procbuilder/conproc.go': sub(conp, "\tSharedHDLOps string\n}", "\tSharedHDLOps string\n\tFoo          int\n}")})
# m3: opcode looked up before EventuallyCreateInstruction (dynamic opcodes dropped in a fresh process)
put('m3', {'/repo/pkg/procbuilder/machine.go': sub(mach, lookup, '''		for _, op := range Allopcodes {
			if op.Op_get_name() == opname {
				result.Op[i] = op
			}
		}

		EventuallyCreateInstruction(opname)
''')})
# m4: Bondmachine Dejsoner forgets Shared_links
put('m4', {'/repo/pkg/bondmachine/bondmachine.go': sub(bm, "\tresult.Shared_links = bmachj.Shared_links\n", "")})
# fix: the two proposed repairs; the check must report 0 violations
put('fix', {
 '/repo/pkg/procbuilder/machine.go': sub(mach, lookup, '''		if _, err := EventuallyCreateInstruction(opname); err != nil {
			panic("machine load: opcode " + opname + " cannot be created: " + err.Error())
		}

		for _, op := range Allopcodes {
			if op.Op_get_name() == opname {
				result.Op[i] = op
			}
		}
		if result.Op[i] == nil {
			panic("machine load: unknown opcode " + opname)
		}
'''),
 '/repo/pkg/bondmachine/shr_vtextmem.go': sub(vt, "func (op Vtextmem) Instantiate(s string) (Shared_instance, bool) {\n", '''func (op Vtextmem) Instantiate(s string) (Shared_instance, bool) {
	if s == "vtextmem" {
		result := new(Vtextmem_instance)
		result.Shared_element = op
		result.Boxes = make([]GraphBox, 0)
		return *result, true
	}
'''),
})
EOF
for m in m1 m2 m3 m4 fix; do
  echo "=== $m"
  VERIF_OVERLAY="$d/$m/ov.json" /verif/run.sh C11 "$tier" 2>&1 | grep "signature:\|^C11 tier\|BUILD-FAILED"
done
# leave the evidence file describing the unchanged tree
/verif/run.sh C11 "$tier" 2>&1 | grep "^C11 tier"
