// C11 — "Saving and reloading a machine loses nothing".
//
// Exhaustive exploration of a structured, bounded space of machines (front-end outputs, every static
// opcode alone and all together under the modes × threaded × word-size × program product, every
// dynamic opcode family with two parameter choices loaded in a FRESH process, every shared-object
// kind / constructor string / attachment / bond topology, simulated systems) plus a reflection-driven
// field-completeness sweep over bondmachine.Bondmachine and procbuilder.Machine. Every machine goes
// through the real Jsoner → json.Marshal → json.Unmarshal → Dejsoner path the CLIs use.
package main

import (
	"encoding/json"
	"fmt"
	"os"
	"path/filepath"
	"reflect"
	"runtime/debug"
	"runtime/pprof"
	"sort"
	"strings"
	"time"

	"verif/lib/vlib"

	"github.com/BondMachineHQ/BondMachine/pkg/bondmachine"
)

var (
	realStdout *os.File
	devNull    *os.File
)

// the generators in /repo print progress on stdout; keep the check's own output readable
func mute()   { os.Stdout = devNull }
func unmute() { os.Stdout = realStdout }

type caseResult struct {
	Spec     CaseSpec
	BuildErr string
	Out      outcome
	Single   []failure
}

func runCase(cs CaseSpec) (cr caseResult) {
	cr.Spec = cs
	mute()
	defer unmute()
	bm, err := buildBM(cs)
	if err != nil {
		cr.BuildErr = err.Error()
		return
	}
	if cs.Class == "opcode" || cs.Class == "shape" || cs.Class == "dynamic" || cs.Class == "frontend" {
		if cs.Child == "" {
			for _, d := range bm.Domains {
				f, n := checkSingle(d)
				cr.Single = append(cr.Single, f...)
				cr.Out.Evals += n
			}
		}
	}
	ev := cr.Out.Evals
	cr.Out = checkBM(cs, bm, false)
	cr.Out.Evals += ev
	return
}

func findLeaf(bm *bondmachine.Bondmachine, path string) (leaf, bool) {
	var ls []leaf
	var un []string
	leaves(reflect.ValueOf(bm), "", &ls, &un, 0)
	for _, l := range ls {
		if l.Path+"#"+l.Kind == path {
			return l, true
		}
	}
	return leaf{}, false
}

// runFieldCase: mutate one exported field of the base machine, save, load, compare.
func runFieldCase(cs CaseSpec) (cr caseResult, influence string) {
	cr.Spec = cs
	mute()
	defer unmute()
	base := cs
	base.Field = ""
	pristine, err := buildBM(base)
	if err != nil {
		cr.BuildErr = err.Error()
		return
	}
	bm, _ := buildBM(base)
	l, ok := findLeaf(bm, cs.Field)
	if !ok {
		cr.BuildErr = "leaf not found: " + cs.Field
		return
	}
	desc, ok := mutate(l)
	if !ok {
		cr.BuildErr = "cannot populate " + cs.Field + " (" + desc + ")"
		return
	}
	fp, fm := flat(pristine), flat(bm)
	if len(diffFlat(fp, fm)) == 0 {
		cr.Out.Fails = append(cr.Out.Fails, failure{"C11|harness|mutation-invisible", "mutating " + cs.Field + " did not change the machine"})
		return
	}
	for _, d := range bm.Domains {
		f, n := checkSingle(d)
		cr.Single = append(cr.Single, f...)
		cr.Out.Evals += n
	}
	ev := cr.Out.Evals
	cr.Out = checkBM(cs, bm, true)
	cr.Out.Evals += ev
	if len(cr.Out.Transient) > 0 && len(cr.Out.Fails) == 0 {
		// a field the loader does not restore is acceptable only if nothing observable depends on it
		cr.Out.Evals += 2
		if os.Getenv("C11_DEBUG") != "" {
			fmt.Fprintln(os.Stderr, "influence test:", cs.Field, cr.Out.Transient)
		}
		s0, s1 := simDigests(pristine), simDigests(bm)
		f0, e0 := render(pristine)
		f1, e1 := render(bm)
		switch {
		case !reflect.DeepEqual(s0, s1):
			influence = "simulation"
		case (e0 == nil) != (e1 == nil):
			influence = fmt.Sprintf("generator outcome (%v vs %v)", e0, e1)
		case e0 == nil:
			if file, what := firstFileDiff(f0, f1); file != "" {
				influence = "verilog: " + what
			}
		}
	}
	return
}

func main() {
	if len(os.Args) > 2 && os.Args[1] == "-child" {
		initStatic()
		childMain(os.Args[2])
		return
	}
	debug.SetGCPercent(800) // the generators build files by repeated string concatenation: garbage-heavy, tiny live heap
	run := vlib.Start("C11", "exploration")
	initStatic()
	loadSimFaithful()
	realStdout = os.Stdout
	devNull, _ = os.OpenFile(os.DevNull, os.O_WRONLY, 0)
	if run.Replay != "" {
		if abs, err := filepath.Abs(run.Replay); err == nil {
			run.Replay = abs
		}
	}
	scratch, cleanup := vlib.Scratch("c11")
	scratchDir = scratch
	os.Chdir(scratch) // threaded processors and some shared objects write side files into the CWD
	finish := func() {
		os.Chdir("/")
		cleanup()
		run.Finish()
	}

	if run.Replay != "" {
		var cs CaseSpec
		sig, err := vlib.LoadReplay(run.Replay, &cs)
		if err != nil {
			fmt.Println("cannot read replay:", err)
			cleanup()
			os.Exit(2)
		}
		fmt.Printf("replaying %s\n  case: %s / %s (child=%q field=%q)\n", sig, cs.Class, cs.Name, cs.Child, cs.Field)
		var cr caseResult
		infl := ""
		if cs.Field != "" {
			cr, infl = runFieldCase(cs)
		} else {
			cr = runCase(cs)
		}
		if cr.BuildErr != "" {
			fmt.Println("  machine could not be built:", cr.BuildErr)
		}
		all := append(append([]failure{}, cr.Out.Fails...), cr.Single...)
		if infl != "" {
			all = append(all, failure{"C11|Machine|unsaved-field-influences-output|" + classPath(strings.SplitN(cs.Field, "#", 2)[0]), infl})
		}
		if len(all) == 0 {
			fmt.Printf("  round trip OK (saved %d bytes, rendered=%v render_panic=%q simulated=%v, unsaved scratch fields: %v)\n",
				cr.Out.SavedBytes, cr.Out.Rendered, cr.Out.RenderPanic, cr.Out.Simulated, cr.Out.Transient)
		}
		for _, f := range all {
			fmt.Printf("  FAIL %s\n       %s\n", f.Sig, f.What)
			run.Report(f.Sig, f.What, cs)
		}
		run.Set("evaluations", cr.Out.Evals)
		run.Set("distinct_nontrivial", 0)
		run.Set("rule", "replay")
		run.Set("exhaustive", false)
		finish()
		return
	}

	if pf := os.Getenv("C11_CPUPROFILE"); pf != "" {
		if f, err := os.Create(pf); err == nil {
			pprof.StartCPUProfile(f)
			defer pprof.StopCPUProfile()
			fin := finish
			finish = func() { pprof.StopCPUProfile(); f.Close(); fin() }
		}
	}
	start := time.Now()
	budget := 100 * time.Second
	if run.Thorough() {
		budget = 14 * time.Minute
	}
	exhaustive := true
	cases := enumerate(run.Thorough())
	perClass := map[string]int{}
	okKeys := map[string]bool{}
	renderPanics := map[string]int{}
	var notBuilt, renderPanicSamples []string
	evals, rendered, simulated, childLoads, failingCases := 0, 0, 0, 0, 0
	soAccepted, loudRefusals := 0, 0
	report := func(cr caseResult, extra []failure) {
		all := append(append(append([]failure{}, cr.Out.Fails...), cr.Single...), extra...)
		if len(all) > 0 {
			failingCases++
		}
		seen := map[string]bool{}
		for _, f := range all {
			if seen[f.Sig] {
				continue
			}
			seen[f.Sig] = true
			run.Report(f.Sig, fmt.Sprintf("[%s: %s] %s", cr.Spec.Class, cr.Spec.Name, f.What), cr.Spec)
		}
	}
	// fresh-process loads are independent of each other: run them ahead, 8 at a time
	var jobs []childJob
	mute()
	for _, cs := range cases {
		if cs.Child == "" {
			continue
		}
		if bm, err := buildBM(cs); err == nil {
			if s1, err := saveBM(bm); err == nil {
				jobs = append(jobs, makeJob(cs, bm, s1, false))
			}
		}
	}
	unmute()
	prefetchChildren(jobs, 8, start.Add(budget/2))
	prefetchSeconds := time.Since(start).Seconds()
	skipped := 0
	classTime := map[string]float64{}
	// order of work: the structurally rich classes and the field sweep first, the bulk opcode product
	// last, so that a deadline on an overloaded machine truncates the most repetitive part
	var core, bulk []CaseSpec
	for _, cs := range cases {
		if cs.Class == "opcode" || cs.Class == "shape" {
			bulk = append(bulk, cs)
		} else {
			core = append(core, cs)
		}
	}
	runList := func(list []CaseSpec) {
		for i, cs := range list {
			t0 := time.Now()
			if time.Since(start) > budget {
				exhaustive = false
				skipped += len(list) - i
				break
			}
			cr := runCase(cs)
			classTime[cs.Class] += time.Since(t0).Seconds()
			perClass[cs.Class]++
			if cr.BuildErr != "" {
				notBuilt = append(notBuilt, cs.Class+": "+cs.Name+": "+cr.BuildErr)
				continue
			}
			evals += cr.Out.Evals
			if cs.Child != "" {
				childLoads++
			}
			if cs.Class == "shared-ctor" {
				soAccepted++
			}
			if cr.Out.Rendered {
				rendered++
			}
			if cr.Out.LoudRefusal {
				loudRefusals++
			}
			if cr.Out.Simulated {
				simulated++
			}
			if cr.Out.RenderPanic != "" {
				renderPanics[cs.Class]++
				if len(renderPanicSamples) < 12 {
					renderPanicSamples = append(renderPanicSamples, cs.Name+": "+tail(cr.Out.RenderPanic, 160))
				}
			}
			if len(cr.Out.Fails) == 0 && len(cr.Single) == 0 && cr.Out.Nontrivial && cr.Out.Rendered {
				okKeys[cr.Out.Key] = true
			}
			report(cr, nil)
			if i%40 == 0 && len(okKeys) > 0 {
				run.Sample(map[string]any{"class": cs.Class, "case": cs.Name, "saved_bytes": cr.Out.SavedBytes, "rendered": cr.Out.Rendered, "simulated": cr.Out.Simulated, "failures": len(cr.Out.Fails) + len(cr.Single)})
			}
		}
	}

	runList(core)

	// (c) field completeness by reflection
	base := baseForFields()
	base.Class, base.Name = "field", "base"
	var ls []leaf
	var unsupported []string
	fieldsLost := map[string]bool{}
	fieldsChecked := map[string]bool{}
	if bm, err := buildBM(base); err != nil {
		notBuilt = append(notBuilt, "field base: "+err.Error())
	} else {
		leaves(reflect.ValueOf(bm), "", &ls, &unsupported, 0)
		for _, l := range ls {
			if time.Since(start) > budget {
				exhaustive = false
				skipped++
				continue
			}
			cs := base
			cs.Name = "mutate " + l.Path + " (" + l.Kind + ")"
			cs.Field = l.Path + "#" + l.Kind
			cr, infl := runFieldCase(cs)
			perClass["field"]++
			if cr.BuildErr != "" {
				unsupported = append(unsupported, l.Path+": "+cr.BuildErr)
				continue
			}
			evals += cr.Out.Evals
			fieldsChecked[classPath(l.Path)] = true
			for _, t := range cr.Out.Transient {
				fieldsLost[t] = true
			}
			var extra []failure
			if infl != "" {
				extra = append(extra, failure{"C11|Machine|unsaved-field-influences-output|" + classPath(l.Path),
					"field is not restored by load (listed as generation scratch state) but changing it changes the " + infl})
			}
			report(cr, extra)
		}
	}

	runList(bulk)

	var lost, checked []string
	for f := range fieldsLost {
		lost = append(lost, f)
	}
	for f := range fieldsChecked {
		checked = append(checked, f)
	}
	sort.Strings(lost)
	sort.Strings(checked)
	sort.Strings(unsupported)
	if len(unsupported) > 0 {
		// a field this harness cannot populate is a coverage hole that must be visible
		run.Report("C11|harness|field-not-populatable", "the reflection sweep cannot set: "+strings.Join(unsupported, "; "), base)
	}
	if !haveFlopoco {
		run.Assume("the flopoco generator is not installed: dyn_flopoco opcodes cannot be created, family not enumerated")
	}
	run.Assume("dyn_fxp opcodes: the Verilog oracle is not applied because FXP.ExtraFiles reads /tmp/fxpcode/ and calls log.Fatal when it is absent (pkg/procbuilder/dynop_fxp.go:399); structure and JSON oracles are applied")
	run.Assume("threadStack<N>stack.v (side file written into the CWD by threaded processors) is not part of the compared file set")
	run.Assume("a field lost by save/load is tolerated only when listed as generation scratch state (CpID, SharedHDLOps, Tag) AND measured not to influence Verilog or simulation")

	run.Set("evaluations", evals)
	run.Set("distinct_nontrivial", len(okKeys))
	run.Set("rule", "for every enumerated machine m: flatten(load(save(m))) == flatten(m) with nil≡empty slices (cross-checked with reflect.DeepEqual), every loaded opcode is the unique registry entry of its name, save(load(save(m))) == save(m) bytewise, RenderFiles(load(save(m))) == RenderFiles(m) bytewise, simulator digests equal for 20 ticks; for every settable exported leaf of Bondmachine/Machine: changing it survives save/load")
	run.Set("exhaustive", exhaustive)
	run.Set("cases", len(cases))
	run.Set("cases_skipped_by_deadline", skipped)
	run.Set("cases_per_class", perClass)
	run.Set("seconds_per_class", classTime)
	run.Set("seconds_fresh_process_prefetch", prefetchSeconds)
	run.Set("cases_failing", failingCases)
	run.Set("static_opcodes", len(staticOps))
	run.Set("fresh_process_loads", childLoads)
	run.Set("loads_refused_with_an_error_when_opcode_cannot_be_recreated", loudRefusals)
	run.Set("machines_rendered_both_sides", rendered)
	run.Set("machines_simulated_both_sides", simulated)
	run.Set("generator_panics_same_on_both_sides", renderPanics)
	run.Set("generator_panic_samples", renderPanicSamples)
	run.Set("shared_object_constructor_strings_tried", len(soKinds())*len(soParams))
	run.Set("shared_object_constructor_strings_accepted", soAccepted)
	run.Set("not_constructible", notBuilt)
	run.Set("field_leaves", len(ls))
	run.Set("field_paths_checked", checked)
	run.Set("fields_not_restored_but_inert", lost)
	run.Set("fields_not_populatable", unsupported)
	run.Set("bounds", map[string]any{"modes": []string{"ha", "hy", "vn"}, "threaded": "0..2", "wordsize": "0, Max_word+3",
		"program": "absent/present", "dynamic_parameter_choices": 2, "sim_ticks": simTicks, "processors": "1..3", "flavor": "iverilog"})
	b, _ := json.Marshal(perClass)
	fmt.Printf("C11 cases=%d per-class=%s fields=%d not-constructible=%d\n", len(cases), b, len(ls), len(notBuilt))
	finish()
}
