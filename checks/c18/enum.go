package main

import (
	"fmt"
	"sort"
	"strconv"
	"strings"
	"verif/lib/bmgen"

	"github.com/BondMachineHQ/BondMachine/pkg/procbuilder"
)

// ---- what an opcode needs so that "the tool accepts the machine" is a meaningful premise ----
// (read from the opcode sources: the opcodes look the shared object up in Arch.Shared_constraints,
// drive ram_* ports that only exist when L>0, or index the processor inputs/outputs)

var opSO = map[string]string{
	"chc": "channel", "chw": "channel", "wrd": "channel", "wwr": "channel",
	"hit": "barrier", "k2r": "kbd", "lfsr82r": "lfsr8",
	"q2r": "queue", "r2q": "queue", "r2s": "sharedmem", "s2r": "sharedmem",
	"r2t": "stack", "t2r": "stack", "r2u": "uart", "u2r": "uart",
	"r2v": "vtextmem", "r2vri": "vtextmem",
}
var opRAM = map[string]bool{"m2r": true, "r2m": true, "m2rri": true, "r2mri": true}
var opIn = map[string]bool{"addi": true, "cmpv": true, "i2r": true, "i2rw": true, "sic": true, "sicv2": true, "sicv3": true}
var opOut = map[string]bool{"r2o": true, "r2owa": true, "r2owaa": true}

// tsp (thread spawn) drives the thread stack, which only exists when Threaded > 0
var opThr = map[string]bool{"tsp": true}

var soKinds = []string{"barrier", "channel", "kbd", "lfsr8", "queue", "sharedmem", "stack", "uart", "vtextmem"}

// constructor strings accepted by Instantiate in /repo/pkg/bondmachine/shr_*.go
func soCtor(kind string, variant int, procs []int) string {
	switch kind {
	case "barrier":
		return [...]string{"barrier:10", "barrier:1"}[variant%2]
	case "channel":
		return "channel:"
	case "kbd":
		return [...]string{"kbd:4", "kbd:1"}[variant%2]
	case "lfsr8":
		return [...]string{"lfsr8:7", "lfsr8:255"}[variant%2]
	case "queue":
		return [...]string{"queue:4", "queue:1"}[variant%2]
	case "sharedmem":
		return [...]string{"sharedmem:4", "sharedmem:1"}[variant%2]
	case "stack":
		return [...]string{"stack:4", "stack:1"}[variant%2]
	case "uart":
		return [...]string{"uart:9600:4", "uart:115200:1"}[variant%2]
	case "vtextmem":
		s := "vtextmem"
		if len(procs) == 0 {
			procs = []int{0}
		}
		for k, p := range procs {
			s += fmt.Sprintf(":%d:%d:0:8:4", p, 8*k)
		}
		return s
	}
	panic("unknown SO kind " + kind)
}

// opcode roles a processor attached to a shared object may have
var soRoles = map[string][][]string{
	"barrier":   {{"hit"}, {}},
	"channel":   {{"chc", "chw", "wrd", "wwr"}, {"chw", "wrd"}, {"chw", "wwr"}, {}},
	"kbd":       {{"k2r"}, {}},
	"lfsr8":     {{"lfsr82r"}, {}},
	"queue":     {{"q2r", "r2q"}, {"r2q"}, {"q2r"}, {}},
	"sharedmem": {{"r2s", "s2r"}, {"r2s"}, {"s2r"}, {}},
	"stack":     {{"r2t", "t2r"}, {"r2t"}, {"t2r"}, {}},
	"uart":      {{"r2u", "u2r"}, {"r2u"}, {"u2r"}, {}},
	"vtextmem":  {{"r2v", "r2vri"}, {"r2v"}, {"r2vri"}, {}},
}

func staticOps() []string {
	var n []string
	for _, op := range procbuilder.Allopcodes {
		n = append(n, op.Op_get_name())
	}
	sort.Strings(n)
	return n
}

// dynamic families: name patterns from /repo/pkg/procbuilder/dynamical_*.go, two parameter choices each.
// Not enumerable here: the FloPoCo family (CreateInstruction shells out to the external `flopoco` binary and the
// result is VHDL) and the FXP family (ExtraFiles reads /tmp/fxpcode/*.v and calls log.Fatal when they are missing).
type dynFamily struct {
	Name    string
	Members [][]string // per parameter choice: the opcodes of the family
}

var dynFamilies = []dynFamily{
	{"call", [][]string{{"calla8s", "callo8s", "ret8s"}, {"calla4rs", "callo4rs", "ret4rs"}}},
	{"stack", [][]string{{"pull4st", "push4st"}, {"pull8x", "push8x"}}},
	{"rsets", [][]string{{"rsets8"}, {"rsets16"}}},
	{"fixedpoint", [][]string{{"addfps16f8", "divfps16f8", "multfps16f8"}, {"addfps8f4", "divfps8f4", "multfps8f4"}}},
	{"linearquantizer", [][]string{{"addlqs8t0", "divlqs8t0", "multlqs8t0"}, {"addlqs16t1", "divlqs16t1", "multlqs16t1"}}},
}

func dynOps() []string {
	var n []string
	for _, f := range dynFamilies {
		for _, m := range f.Members {
			n = append(n, m...)
		}
	}
	return n
}

// familyOf maps a dynamic opcode name to "<family>" so that one generator gives one signature component.
func familyOf(op string) string {
	for _, f := range dynFamilies {
		for _, m := range f.Members {
			for _, o := range m {
				if o == op {
					return f.Name
				}
			}
		}
	}
	return ""
}

type arch struct {
	Rsize, R, N, M, L, O uint8
	Mode                 string
	Thr                  int
}

var baseArch = arch{Rsize: 8, R: 2, N: 2, M: 2, L: 3, O: 4, Mode: "ha"}

// procJob builds a single-processor job giving the opcodes the shared objects they need.
// It returns ok=false (premise not satisfiable on this architecture) when an opcode needs RAM / an input /
// an output / a RAM-fetching mode needs RAM and the architecture has none.
func procJob(group string, ops []string, a arch) (Job, bool) {
	ok := true
	need := map[string]bool{}
	for _, o := range ops {
		if k, y := opSO[o]; y {
			need[k] = true
		}
		if opRAM[o] && a.L == 0 {
			ok = false
		}
		if opIn[o] && a.N == 0 {
			ok = false
		}
		if opOut[o] && a.M == 0 {
			ok = false
		}
	}
	if (a.Mode == "vn" || a.Mode == "hy") && a.L == 0 {
		ok = false
	}
	for _, o := range ops {
		if opThr[o] && a.Thr == 0 {
			a.Thr = 1
		}
	}
	var sos []string
	for _, k := range soKinds {
		if need[k] {
			sos = append(sos, soCtor(k, 0, []int{0}))
		}
	}
	sorted := append([]string(nil), ops...)
	sort.Strings(sorted)
	j := Job{Kind: "proc", Group: group, SOs: sos,
		Procs: []ProcSpec{{Rsize: a.Rsize, R: a.R, N: a.N, M: a.M, L: a.L, O: a.O, Ops: sorted, Mode: a.Mode, Threaded: a.Thr}}}
	return j, ok
}

type enumeration struct {
	jobs    []Job
	premise int // configurations dropped because an opcode/mode need cannot be met on that architecture
	bounds  map[string]any
}

func (e *enumeration) addProc(group string, ops []string, a arch) {
	j, ok := procJob(group, ops, a)
	if !ok {
		e.premise++
		return
	}
	e.jobs = append(e.jobs, j)
}

func grid(thorough bool) []arch {
	var g []arch
	modes := []string{"ha", "hy", "vn"}
	rs := []uint8{1, 2}
	nm := []uint8{0, 1, 2}
	ls := []uint8{0, 3}
	sizes := []uint8{8, 16, 32}
	// architectures used by the multi-opcode / whole-machine families: their single-opcode baselines are
	// needed in both tiers
	g = append(g, baseArch, arch{Rsize: 8, R: 2, N: 1, M: 1, L: 0, O: 4, Mode: "ha"})
	for _, m := range modes {
		g = append(g, arch{Rsize: 16, R: 2, N: 1, M: 1, L: 3, O: 4, Mode: m})
	}
	if !thorough {
		// reduced product: every value of every dimension appears, not every combination
		for _, m := range modes {
			g = append(g, arch{Rsize: 8, R: 2, N: 1, M: 1, L: 3, O: 4, Mode: m})
		}
		g = append(g, arch{Rsize: 16, R: 1, N: 2, M: 2, L: 3, O: 4, Mode: "ha"},
			arch{Rsize: 32, R: 2, N: 0, M: 0, L: 3, O: 4, Mode: "ha"},
			arch{Rsize: 32, R: 1, N: 0, M: 0, L: 0, O: 4, Mode: "ha"},
			arch{Rsize: 16, R: 2, N: 2, M: 2, L: 3, O: 4, Mode: "hy"},
			arch{Rsize: 16, R: 1, N: 2, M: 2, L: 3, O: 4, Mode: "vn"})
		return dedupArch(g)
	}
	ls = []uint8{0, 3, 5} // 5 > O exercises the "L > O" program-counter branch of hy mode
	for _, m := range modes {
		for _, r := range rs {
			for _, n := range nm {
				for _, l := range ls {
					for _, s := range sizes {
						g = append(g, arch{Rsize: s, R: r, N: n, M: n, L: l, O: 4, Mode: m})
					}
				}
			}
		}
	}
	return dedupArch(g)
}

func dedupArch(g []arch) []arch {
	seen := map[arch]bool{}
	var r []arch
	for _, a := range g {
		if !seen[a] {
			seen[a] = true
			r = append(r, a)
		}
	}
	return r
}

func allSOOps() []string {
	var o []string
	for k := range opSO {
		o = append(o, k)
	}
	sort.Strings(o)
	return o
}

func enumerate(thorough bool) *enumeration {
	e := &enumeration{bounds: map[string]any{}}
	st := staticOps()
	dyn := dynOps()
	g := grid(thorough)

	// (a1) every static opcode alone and every dynamic opcode alone, on the architecture grid
	for _, op := range st {
		for _, a := range g {
			e.addProc("single", []string{op}, a)
		}
	}
	for _, op := range dyn {
		for _, a := range g {
			e.addProc("dyn-single", []string{op}, a)
		}
	}
	// word width against register width: every opcode (with j) on architectures whose instruction word is one bit
	// narrower than, exactly as wide as, and one bit wider than the registers (generated text that slices or pads
	// between the ROM word and a register changes shape exactly there). O and R are searched for each opcode.
	for _, op := range append(append([]string(nil), st...), dyn...) {
		for _, rsz := range []uint8{8, 16} {
			found := map[int]bool{}
			for _, r := range []uint8{1, 2, 3} {
				for o := uint8(1); o <= 14; o++ {
					a := arch{Rsize: rsz, R: r, N: 1, M: 1, L: 3, O: o, Mode: "ha"}
					j, ok := procJob("word-vs-register", []string{op, "j"}, a)
					if !ok {
						continue
					}
					m, err := bmgen.NewMachine(bmgen.ArchSpec{Rsize: a.Rsize, R: a.R, N: a.N, M: a.M, L: a.L, O: a.O, Ops: j.Procs[0].Ops, Modes: []string{"ha"}, Threaded: j.Procs[0].Threaded})
					if err != nil {
						continue
					}
					d := m.Arch.Max_word() - int(rsz)
					if d < -1 || d > 1 || found[d] {
						continue
					}
					found[d] = true
					e.jobs = append(e.jobs, j)
				}
			}
		}
	}
	// shared-object baseline: a processor attached to each shared-object kind WITHOUT any of its opcodes
	// (the tool accepts that; the per-processor SO plumbing is emitted regardless of the opcodes)
	for _, k := range soKinds {
		for _, a := range g {
			j, ok := procJob("so-base", []string{"nop"}, a)
			if !ok {
				e.premise++
				continue
			}
			j.SOs = []string{soCtor(k, 0, []int{0})}
			e.jobs = append(e.jobs, j)
		}
	}
	// dynamic families: all members of one parameter choice together; both choices together
	for _, f := range dynFamilies {
		for _, a := range g {
			for _, m := range f.Members {
				e.addProc("dyn-family", m, a)
			}
			var both []string
			for _, m := range f.Members {
				both = append(both, m...)
			}
			e.addProc("dyn-family", both, a)
		}
	}
	// (a2) every pair of static opcodes on the base architecture
	for i := 0; i < len(st); i++ {
		for k := i + 1; k < len(st); k++ {
			e.addProc("pair", []string{st[i], st[k]}, baseArch)
		}
	}
	// (opcode lists are always sorted by name here: every front end sorts them, C16 makes sortedness part of what the
	// HDL generator relies on, and the unchanged generator itself assumes it — r2v/r2vri decide which of them opens
	// and closes their common always block from the alphabetical order — so unsorted lists are outside the premise)
	// static x dynamic pairs (one representative per dynamic opcode kind) on the base architecture
	for _, f := range dynFamilies {
		for _, d := range f.Members[0] {
			for _, s := range st {
				e.addProc("pair-dyn", []string{s, d}, baseArch)
			}
		}
	}
	// dynamic x dynamic pairs
	for i := 0; i < len(dyn); i++ {
		for k := i + 1; k < len(dyn); k++ {
			e.addProc("pair-dyn", []string{dyn[i], dyn[k]}, baseArch)
		}
	}
	// (a3) the full static set (with and without tsp, which forces Threaded>=1), and the full static+dynamic
	// set, on the grid (they need RAM, inputs, outputs)
	full := append([]string(nil), st...)
	fullDyn := append(append([]string(nil), st...), dyn...)
	var fullNoTsp []string
	for _, o := range st {
		if !opThr[o] {
			fullNoTsp = append(fullNoTsp, o)
		}
	}
	for _, a := range g {
		e.addProc("full", full, a)
		e.addProc("full", fullNoTsp, a)
		e.addProc("full", fullDyn, a)
	}
	// (a4) threading depth 0..3 on a slice: every opcode alone, pairs with an I/O opcode and the full set,
	// base architecture in every mode
	for _, mode := range []string{"ha", "hy", "vn"} {
		for thr := 1; thr <= 3; thr++ {
			a := baseArch
			a.Mode, a.Thr = mode, thr
			if !thorough && mode != "ha" && thr != 2 {
				continue
			}
			for _, op := range append(append([]string(nil), st...), dyn...) {
				e.addProc("threaded", []string{op}, a)
			}
			e.addProc("threaded", full, a)
			e.addProc("threaded", fullDyn, a)
			if thorough {
				b := a
				b.R, b.Rsize = 1, 16
				for _, op := range st {
					e.addProc("threaded", []string{op}, b)
				}
			}
		}
	}
	// (a5) hardware optimisation flags on a slice: every opcode alone + the full set on the base architecture,
	// each flag combination, with a partial and a complete used-register requirement set
	regsAll := []string{"r0", "r1", "r2", "r3"}
	type hw struct {
		flags     []string
		dest, src []string
	}
	hws := []hw{
		{[]string{"onlydestregs"}, []string{"r0"}, []string{"r1"}},
		{[]string{"onlysrcregs"}, []string{"r0"}, []string{"r1"}},
		{[]string{"onlydestregs", "onlysrcregs"}, []string{"r0"}, []string{"r1"}},
		{[]string{"onlydestregs", "onlysrcregs"}, []string{"r0", "r3"}, []string{"r0", "r3"}},
		{[]string{"onlydestregs", "onlysrcregs"}, regsAll, regsAll},
	}
	for hi, h := range hws {
		if !thorough && hi != 2 && hi != 4 {
			continue
		}
		sets := [][]string{}
		for _, op := range append(append([]string(nil), st...), dyn...) {
			sets = append(sets, []string{op})
		}
		sets = append(sets, full, fullDyn)
		for _, ops := range sets {
			j, ok := procJob("hwopt", ops, baseArch)
			if !ok {
				e.premise++
				continue
			}
			j.HwOpt, j.DestRegs, j.SrcRegs = h.flags, h.dest, h.src
			e.jobs = append(e.jobs, j)
		}
	}
	// commented Verilog flag (-comment-verilog): the full set and a slice of singles
	for _, ops := range [][]string{full, {"nop"}, {"i2rw", "r2owa"}} {
		j, _ := procJob("commented", ops, baseArch)
		j.Commented = true
		e.jobs = append(e.jobs, j)
	}

	e.enumBM(thorough)
	e.enumTemplates(thorough)

	e.bounds["static_opcodes"] = len(st)
	e.bounds["dynamic_opcodes"] = len(dyn)
	e.bounds["dynamic_families"] = len(dynFamilies)
	e.bounds["architecture_grid_points"] = len(g)
	e.bounds["pairs_base_arch"] = fmt.Sprintf("%+v", baseArch)
	return e
}

// ---- (b) whole BondMachines through the real Bondmachine.Write_verilog ----

func cpSpec(ops []string, n, m uint8) ProcSpec {
	o := append([]string{"i2rw", "nop", "r2owa"}, ops...)
	sort.Strings(o)
	return ProcSpec{Rsize: 8, R: 2, N: n, M: m, L: 0, O: 4, Ops: o, Mode: "ha"}
}

func dedupStrings(s []string) []string {
	var o []string
	for i, x := range s {
		if i == 0 || x != s[i-1] {
			o = append(o, x)
		}
	}
	return o
}

func subsets(n int) [][]int {
	var r [][]int
	for mask := 1; mask < 1<<n; mask++ {
		var s []int
		for i := 0; i < n; i++ {
			if mask&(1<<i) != 0 {
				s = append(s, i)
			}
		}
		r = append(r, s)
	}
	sort.Slice(r, func(a, b int) bool {
		if len(r[a]) != len(r[b]) {
			return len(r[a]) < len(r[b])
		}
		return fmt.Sprint(r[a]) < fmt.Sprint(r[b])
	})
	return r
}

func (e *enumeration) enumBM(thorough bool) {
	maxProcs := 2
	if thorough {
		maxProcs = 3
	}
	// every shared-object kind attached to 1..3 of 1..3 processors, every role assignment
	for _, kind := range soKinds {
		roles := soRoles[kind]
		for np := 1; np <= maxProcs; np++ {
			for _, att := range subsets(np) {
				// role assignment: product over attached processors (quick: only uniform assignments + one mixed)
				nr := len(roles)
				total := 1
				for range att {
					total *= nr
				}
				for code := 0; code < total; code++ {
					asg := make([]int, len(att))
					c := code
					uniform := true
					for i := range att {
						asg[i] = c % nr
						c /= nr
						if asg[i] != asg[0] {
							uniform = false
						}
					}
					if !thorough && !uniform && !(len(att) == 2 && asg[0] == 1 && asg[1] == nr-2) {
						continue
					}
					for variant := 0; variant < 2; variant++ {
						if !thorough && variant == 1 && !(np == 1) {
							continue
						}
						j := Job{Kind: "bm", Group: "so:" + kind, Real: true}
						for p := 0; p < np; p++ {
							var ops []string
							for i, ap := range att {
								if ap == p {
									ops = roles[asg[i]]
								}
							}
							j.Procs = append(j.Procs, cpSpec(ops, 1, 1))
						}
						j.SOs = []string{soCtor(kind, variant, att)}
						for _, ap := range att {
							j.Links = append(j.Links, [2]int{ap, 0})
						}
						// a chain of bonds so that the top level is a plausible machine
						j.In, j.Out = 1, 1
						j.Bonds = append(j.Bonds, [2]string{"i0", "p0i0"})
						for p := 0; p+1 < np; p++ {
							j.Bonds = append(j.Bonds, [2]string{"p" + strconv.Itoa(p) + "o0", "p" + strconv.Itoa(p+1) + "i0"})
						}
						j.Bonds = append(j.Bonds, [2]string{"p" + strconv.Itoa(np-1) + "o0", "o0"})
						e.jobs = append(e.jobs, j)
					}
				}
			}
		}
	}
	// processors whose index differs from their domain index (domains used in another order, or one
	// domain shared by two processors), with a shared object attached to both and different roles
	for _, kind := range soKinds {
		roles := soRoles[kind]
		for r0 := range roles {
			for r1 := range roles {
				for _, domOf := range [][]int{{1, 0}, {0, 0}, {1, 1}, {1, 0, 1}} {
					if !thorough && len(domOf) == 3 {
						continue
					}
					j := Job{Kind: "bm", Group: "so-domain-map:" + kind, Real: true, DomainOf: domOf}
					j.Procs = []ProcSpec{cpSpec(roles[r0], 1, 1), cpSpec(roles[r1], 1, 1)}
					np := len(domOf)
					var att []int
					for p := 0; p < np; p++ {
						att = append(att, p)
						j.Links = append(j.Links, [2]int{p, 0})
					}
					j.SOs = []string{soCtor(kind, 0, att)}
					j.In, j.Out = 1, 1
					j.Bonds = append(j.Bonds, [2]string{"i0", "p0i0"})
					for p := 0; p+1 < np; p++ {
						j.Bonds = append(j.Bonds, [2]string{"p" + strconv.Itoa(p) + "o0", "p" + strconv.Itoa(p+1) + "i0"})
					}
					j.Bonds = append(j.Bonds, [2]string{"p" + strconv.Itoa(np-1) + "o0", "o0"})
					e.jobs = append(e.jobs, j)
				}
			}
		}
	}
	// two shared objects mixed (ordered pairs of kinds, the same kind twice included):
	// both on one processor; one each on two processors; both on both processors
	for _, k1 := range soKinds {
		for _, k2 := range soKinds {
			for layout := 0; layout < 3; layout++ {
				if !thorough && layout == 2 {
					continue
				}
				np := 1
				if layout > 0 {
					np = 2
				}
				j := Job{Kind: "bm", Group: "so-mix", Real: true}
				var a1, a2 []int
				switch layout {
				case 0:
					a1, a2 = []int{0}, []int{0}
				case 1:
					a1, a2 = []int{0}, []int{1}
				case 2:
					a1, a2 = []int{0, 1}, []int{0, 1}
				}
				for p := 0; p < np; p++ {
					var ops []string
					for _, x := range a1 {
						if x == p {
							ops = append(ops, soRoles[k1][0]...)
						}
					}
					for _, x := range a2 {
						if x == p {
							ops = append(ops, soRoles[k2][0]...)
						}
					}
					j.Procs = append(j.Procs, cpSpec(ops, 1, 1))
				}
				j.SOs = []string{soCtor(k1, 0, a1), soCtor(k2, 0, a2)}
				for _, x := range a1 {
					j.Links = append(j.Links, [2]int{x, 0})
				}
				for _, x := range a2 {
					j.Links = append(j.Links, [2]int{x, 1})
				}
				e.jobs = append(e.jobs, j)
				if k1 == k2 && soCtor(k2, 1, a2) != soCtor(k2, 0, a2) {
					// the same kind twice with DIFFERENT parameters (whatever numbers instances per kind must not
					// key on the whole constructor string), in both orders
					for _, vs := range [][2]int{{0, 1}, {1, 0}} {
						j2 := j
						j2.Group = "so-same-kind-different-parameters"
						j2.SOs = []string{soCtor(k1, vs[0], a1), soCtor(k2, vs[1], a2)}
						e.jobs = append(e.jobs, j2)
					}
				}
			}
		}
	}
	// all nine kinds on 1, 2, 3 processors at once
	for np := 1; np <= maxProcs; np++ {
		j := Job{Kind: "bm", Group: "so-all", Real: true}
		att := make([]int, np)
		for p := range att {
			att[p] = p
		}
		for p := 0; p < np; p++ {
			j.Procs = append(j.Procs, cpSpec(allSOOps(), 1, 1))
		}
		for si, k := range soKinds {
			j.SOs = append(j.SOs, soCtor(k, 0, att))
			for p := 0; p < np; p++ {
				j.Links = append(j.Links, [2]int{p, si})
			}
		}
		e.jobs = append(e.jobs, j)
	}
	// bonds: EVERY link matrix of a small machine (each internal input = processor input or external output
	// is unconnected or fed by one of the internal outputs = processor outputs and external inputs):
	// covers fan-out, unconnected endpoints on both sides, self loops, external pass-through.
	type shape struct {
		np   int
		n, m uint8
		in   int
		out  int
	}
	shapes := []shape{{2, 1, 1, 1, 1}}
	if thorough {
		shapes = append(shapes, shape{3, 1, 1, 1, 1}, shape{1, 2, 2, 2, 2}, shape{1, 1, 1, 0, 0}, shape{2, 2, 1, 0, 1})
	}
	for _, s := range shapes {
		var ins, outs []string
		for p := 0; p < s.np; p++ {
			for i := 0; i < int(s.n); i++ {
				ins = append(ins, fmt.Sprintf("p%di%d", p, i))
			}
		}
		for i := 0; i < s.out; i++ {
			ins = append(ins, fmt.Sprintf("o%d", i))
		}
		for i := 0; i < s.in; i++ {
			outs = append(outs, fmt.Sprintf("i%d", i))
		}
		for p := 0; p < s.np; p++ {
			for i := 0; i < int(s.m); i++ {
				outs = append(outs, fmt.Sprintf("p%do%d", p, i))
			}
		}
		total := 1
		for range ins {
			total *= len(outs) + 1
		}
		for code := 0; code < total; code++ {
			j := Job{Kind: "bm", Group: "bonds", Real: true, In: s.in, Out: s.out}
			for p := 0; p < s.np; p++ {
				j.Procs = append(j.Procs, cpSpec(nil, s.n, s.m))
			}
			c := code
			for _, in := range ins {
				k := c % (len(outs) + 1)
				c /= len(outs) + 1
				if k > 0 {
					j.Bonds = append(j.Bonds, [2]string{in, outs[k-1]})
				}
			}
			e.jobs = append(e.jobs, j)
		}
	}
	// every opcode on two (thorough: also three) processors of ONE machine through the real writer: whatever the
	// writer keeps per processor (helper declarations an opcode adds once per module, runtime bookkeeping)
	// must not leak from the first processor into the next one
	var once []string
	once = append(once, staticOps()...)
	once = append(once, dynOps()...)
	for _, op := range once {
		for np := 2; np <= maxProcs; np++ {
			j := Job{Kind: "bm", Group: "same-op-on-every-processor", Real: true, In: 1, Out: 1}
			for p := 0; p < np; p++ {
				ps := ProcSpec{Rsize: 8, R: 2, N: 1, M: 1, L: 3, O: 4, Mode: "ha", Ops: nil}
				ops := []string{"i2rw", "nop", "r2owa", op}
				sort.Strings(ops)
				ps.Ops = dedupStrings(ops)
				if opThr[op] {
					ps.Threaded = 1
				}
				j.Procs = append(j.Procs, ps)
			}
			if k, y := opSO[op]; y {
				var att []int
				for p := 0; p < np; p++ {
					att = append(att, p)
				}
				j.SOs = []string{soCtor(k, 0, att)}
				for p := 0; p < np; p++ {
					j.Links = append(j.Links, [2]int{p, 0})
				}
			}
			j.Bonds = append(j.Bonds, [2]string{"i0", "p0i0"})
			for p := 0; p+1 < np; p++ {
				j.Bonds = append(j.Bonds, [2]string{"p" + strconv.Itoa(p) + "o0", "p" + strconv.Itoa(p+1) + "i0"})
			}
			j.Bonds = append(j.Bonds, [2]string{"p" + strconv.Itoa(np-1) + "o0", "o0"})
			e.jobs = append(e.jobs, j)
		}
	}
	// heterogeneous machines through the real writer: modes x RAM x threading, 1..3 processors
	for _, mode := range []string{"ha", "hy", "vn"} {
		for np := 1; np <= maxProcs; np++ {
			for thr := 0; thr <= 3; thr++ {
				if !thorough && thr > 1 {
					continue
				}
				j := Job{Kind: "bm", Group: "real-arch", Real: true, In: 1, Out: 1}
				for p := 0; p < np; p++ {
					ps := ProcSpec{Rsize: 16, R: 2, N: 1, M: 1, L: 3, O: 4, Mode: mode, Threaded: thr,
						Ops: []string{"add", "i2rw", "inc", "j", "m2r", "nop", "r2m", "r2owa", "rset"}}
					if p == 1 {
						ps.Mode, ps.Threaded, ps.L = "ha", 0, 0
						ps.Ops = []string{"cpy", "i2rw", "jz", "nop", "r2owa"}
					}
					j.Procs = append(j.Procs, ps)
				}
				j.Bonds = append(j.Bonds, [2]string{"i0", "p0i0"})
				for p := 0; p+1 < np; p++ {
					j.Bonds = append(j.Bonds, [2]string{"p" + strconv.Itoa(p) + "o0", "p" + strconv.Itoa(p+1) + "i0"})
				}
				j.Bonds = append(j.Bonds, [2]string{"p" + strconv.Itoa(np-1) + "o0", "o0"})
				e.jobs = append(e.jobs, j)
			}
		}
	}
}

// ---- (c) templates ----

func (e *enumeration) enumTemplates(thorough bool) {
	for _, mt := range []string{"LIFO", "FIFO"} {
		for depth := 1; depth <= 5; depth++ {
			for ns := 1; ns <= 3; ns++ {
				for nr := 1; nr <= 3; nr++ {
					for _, ds := range []int{1, 8, 32} {
						if !thorough && ds != 8 {
							continue
						}
						e.jobs = append(e.jobs, Job{Kind: "stack", Group: "bmstack", MemType: mt, Depth: depth, NS: ns, NR: nr, DS: ds})
					}
				}
			}
		}
	}
	for _, dir := range []string{"serialize", "deserialize"} {
		for _, model := range []string{"ready-impulse", "valid-ack"} {
			for term := 1; term <= 4; term++ {
				for _, tds := range []int{8, 32} {
					for _, sds := range []int{8, 32} {
						e.jobs = append(e.jobs, Job{Kind: "serialize", Group: "bmserialize", Direction: dir, Model: model, Terminals: term, TDS: tds, SDS: sds})
					}
				}
			}
		}
	}
}

func jobKey(j Job) string { return strings.TrimSpace(j.String()) }
