package main

// Human descriptions (with the generator source location of the cause) of the failure classes found on the
// unchanged tree. Used for the `what` text of reports and of proposed known-finding entries; a signature that is
// not listed here gets a description generated from the first diagnostic.

const pb = "/repo/pkg/procbuilder/"
const bmp = "/repo/pkg/bondmachine/"

var whats = map[string]string{
	"C18|conproc|undeclared|iN_recv": "every processor with N>0 inputs ends with `assign iN_received = iN_recv;` (" + pb + "conproc.go:731) but iN_recv is declared only by the input opcodes (i2r/i2rw/sic*/addi): any machine without one of them has an undeclared identifier",
	"C18|conproc|undeclared|oN_val":  "every processor with M>0 outputs ends with `assign oN_valid = oN_val;` (" + pb + "conproc.go:736) but oN_val is declared only by the output opcodes (r2o/r2owa/r2owaa/...): any machine without one of them has an undeclared identifier",

	"C18|barrier|undeclared|clock":      "barrier shared object: module port is `clk` but every always block uses `posedge clock` (" + bmp + "shr_barrier.go:147,163,170)",
	"C18|barrier|multi-driver|done":     "barrier shared object: `done` is assigned in the reset always block and again in the hit-detection always block (" + bmp + "shr_barrier.go:153,172)",
	"C18|barrier|multi-driver|timeout":  "barrier shared object: `timeout` is assigned in two always blocks (" + bmp + "shr_barrier.go:155,176)",
	"C18|barrier|multi-driver|counter":  "barrier shared object: `counter` is assigned in two always blocks (" + bmp + "shr_barrier.go:156,165)",
	"C18|hit|syntax|expected-'='-or-'<='-in-assignment-but-found-':':RN": "opcode hit emits a register label `RN : begin` nested directly inside another case item instead of a case statement (" + pb + "op_hit.go:73-76)",

	"C18|bmserialize:serialize|syntax|expected-identifier-but-found-')'": "bmserialize serializer template ends its ANSI port list with `output reg ready,` followed by `);` (trailing comma, /repo/pkg/bmserialize/serializefile.go:15); the deserializer template does not even parse as a Go template (`bits Terminals`, `.SerialdataSize`) so it never writes a file",

	"C18|bmstack|syntax|zero-width-literal:sendSM": "bmstack template with an empty sender list (queue/stack/uart/kbd shared object attached only to reading processors) emits `reg [-1:0] sendSM` and the zero-width literal `sendSM <= 0'd0;` (/repo/pkg/bmstack/stackfile.go: `{{bits (len .Senders)}}'d0`)",
	"C18|bmstack|syntax|zero-width-literal:recvSM": "bmstack template with an empty receiver list (queue/stack/uart/kbd shared object attached only to writing processors, or to processors without its opcodes) emits the zero-width literal `recvSM <= 0'd0;` (/repo/pkg/bmstack/stackfile.go: `{{bits (len .Receivers)}}'d0`)",

	"C18|channel|syntax|malformed-number:-no-digits:localparam": "channel shared object with 3 attached processors emits `localparam TAG_CH_2 = 'b2;` — the processor index is printed in decimal after a binary base (" + bmp + "shr_channel.go:197)",
	"C18|chc|undeclared|channel-regs*": "opcode chc uses wrd_ch/wwr_ch/ch_num/op_channel/reg_num/count_seq_ch, which are declared only by wrd/wwr (" + pb + "op_wrd.go:66-73, op_wwr.go:67-74): chc without both of them references undeclared registers",
	"C18|chw|undeclared|channel-regs*": "opcode chw uses wrd_ch/wwr_ch/ch_num/op_channel/reg_num/count_seq_ch, which are declared only by wrd/wwr (" + pb + "op_wrd.go:66-73, op_wwr.go:67-74): chw without both of them references undeclared registers",
	"C18|wrd|undeclared|channel-regs*": "opcode wrd uses reset_flag_ch (declared only by chc/chw, " + pb + "op_chc.go:67, op_chw.go:65) and wwr_ch (declared only by wwr): wrd without the other channel opcodes references undeclared registers",
	"C18|wwr|undeclared|channel-regs*": "opcode wwr uses reset_flag_ch (declared only by chc/chw, " + pb + "op_chc.go:67, op_chw.go:65) and wrd_ch (declared only by wrd): wwr without the other channel opcodes references undeclared registers",

	"C18|cilc|syntax|unsized-constant-in-concatenation:carryflag": "opcode cilc emits `{carryflag,_rN} <= {0,_rN} << 1'b1;` — an unsized constant inside a concatenation (" + pb + "op_cilc.go:74)",
	"C18|incc|syntax|unsized-constant-in-concatenation:carryflag": "opcode incc emits `{carryflag,_rN} <= {0,_rN} + 1'b1;` — an unsized constant inside a concatenation (" + pb + "op_incc.go:74)",
	"C18|expf|undeclared|exp": "opcode expf emits `_rN <= exp(_rN);` — exp is not a Verilog function and none is generated (" + pb + "op_expf.go:68)",

	"C18|m2r|syntax|unexpected-';'-in-expression:assign":   "opcode m2r without r2m/r2mri emits `assign ram_addr = (...==M2R) ? addr_ram_m2r : ;` — the else branch of the address mux is empty (" + pb + "op_m2r.go:110-127)",
	"C18|m2rri|syntax|unexpected-';'-in-expression:assign": "opcode m2rri without r2m/r2mri emits `assign ram_addr = (...==M2RRI) ? addr_ram_m2rri: ;` — the else branch of the address mux is empty (" + pb + "op_m2rri.go:168-186)",
	"C18|r2m|undeclared|exec_mode":   "opcode r2m in vn mode emits `assign ram_addr = (exec_mode == 1'b1 && vn_state == FETCH) ? _pc : ...` but exec_mode is declared only in hy mode (" + pb + "op_r2m.go:114-116, conproc.go:573)",
	"C18|r2mri|undeclared|exec_mode": "opcode r2mri in vn mode emits `assign ram_addr = (exec_mode == 1'b1 && vn_state == FETCH) ? _pc : ...` but exec_mode is declared only in hy mode (" + pb + "op_r2mri.go:131-133, conproc.go:573)",

	"C18|ja|undeclared|vn_state*":      "opcode ja emits `vn_state <= FETCH;` in every mode although vn_state/FETCH exist only in hy and vn modes; no Required_modes is declared so ha machines are accepted (" + pb + "op_ja.go:94)",
	"C18|jria|undeclared|vn_state*":    "opcode jria emits `vn_state <= FETCH;` in every mode although vn_state/FETCH exist only in hy and vn modes (" + pb + "op_jria.go:61)",
	"C18|jcmpa|undeclared|vn_state*":   "opcode jcmpa emits `vn_state <= FETCH;` in every mode although vn_state/FETCH exist only in hy and vn modes (" + pb + "op_jcmpa.go:101,113)",
	"C18|jcmpria|undeclared|vn_state*": "opcode jcmpria emits `vn_state <= #1 FETCH;` in every mode although vn_state/FETCH exist only in hy and vn modes (" + pb + "op_jcmpria.go:74)",
	"C18|saj|undeclared|vn_state*":     "opcode saj emits `vn_state <= FETCH;` in every mode although vn_state/FETCH exist only in hy and vn modes (" + pb + "op_saj.go:86)",
	"C18|saj|undeclared|exec_mode":     "opcode saj reads and writes exec_mode in every mode although it is declared only in hy mode (ha and vn machines) (" + pb + "op_saj.go:84-88)",
	"C18|jgt0f|syntax|unexpected-'else'-at-start-of-statement:else": "opcode jgt0f emits `if (..) <NextInstruction> else <NextInstruction>` without begin/end; in hy and vn modes NextInstruction is several statements, so the else is orphaned (" + pb + "op_jgt0f.go:59-61)",

	"C18|addi+iN_recv-declarer|syntax|duplicate-decl:iN_recv": "opcode addi declares `reg iN_recv` unconditionally (" + pb + "op_addi.go:45) instead of through the unique[\"inputrecv\"] guard: together with i2r/i2rw/sicv2/sicv3/sic the register is declared twice",
	"C18|addi+iN_recv-declarer|multi-driver|iN_recv":          "opcode addi emits its own per-input always block driving iN_recv (" + pb + "op_addi.go:55-83, \"TODO: ADDI and I2R has to be fixed in order to coexist\"): together with another input opcode the register is assigned from two processes",
	"C18|sic+iN_recv-declarer|syntax|duplicate-decl:iN_recv":  "opcode sic declares `reg iN_recv` unconditionally (" + pb + "op_sic.go:47) instead of through the unique[\"inputrecv\"] guard: together with i2r/i2rw/sicv2/sicv3 the register is declared twice",

	"C18|addf+addf16|syntax|duplicate-decl:adder_N_*": "addf and addf16 both declare the signals and the instance of `adder_<cp>` (" + pb + "op_addf.go:318, op_addf16.go:263): a processor with both has every adder_N_* signal declared twice",
	"C18|addf+addf16|multi-driver|adder_N_*":          "addf and addf16 both instantiate `adder_<cp>` on the same nets: the instance outputs are driven twice",
	"C18|divf+divf16|syntax|duplicate-decl:divider_N_*": "divf and divf16 both declare the signals and the instance of `divider_<cp>` (" + pb + "op_divf.go:262, op_divf16.go:263): a processor with both has every divider_N_* signal declared twice",
	"C18|divf+divf16|multi-driver|divider_N_*":          "divf and divf16 both instantiate `divider_<cp>` on the same nets: the instance outputs are driven twice",
	"C18|multf+multf16|syntax|duplicate-decl:multiplier_N_*": "multf and multf16 both declare the signals and the instance of `multiplier_<cp>` (" + pb + "op_multf.go:260, op_multf16.go:262): a processor with both has every multiplier_N_* signal declared twice",
	"C18|multf+multf16|multi-driver|multiplier_N_*":          "multf and multf16 both instantiate `multiplier_<cp>` on the same nets: the instance outputs are driven twice",

	"C18|extra-module-dedup|undefined-module|opmodule_N": "conproc appends the modules returned by Op_instruction_verilog_extra_modules once per *key* (" + pb + "conproc.go:741-748) but unrelated opcodes return the same key for differently named modules (addp/multp return \"multiplier\" like multf, op_addp.go:246; divp \"divider\"; every fixed-point / linear-quantizer dynamic opcode \"adder\"/\"multiplier\"/\"divider\"/\"*_correction\"): with two such opcodes the second module is dropped and its instance is undefined",
	"C18|dyn-family:call|syntax|duplicate-decl:CALLN":  "callo/calla/ret: each call stack (size+name) declares `localparam CALL1..CALL4` again (" + pb + "dynop_call.go:89-92): a processor using two call stacks redeclares them",
	"C18|dyn-family:stack|syntax|duplicate-decl:REGSTN": "push/pull: each register stack (size+name) declares `localparam REGST1..REGST4` again (" + pb + "dynop_stack.go:66-69): a processor using two register stacks redeclares them",

	"C18|kbd|undeclared|kN*":        "kbd shared object: the processor/arch port list names the ports kNreceiver*/kNempty/kNfull (" + pb + "shr_kbd.go:20-27) but GetCPParams declares them as uN... (`kbdName := \"u\"`, shr_kbd.go:66): the kN ports have no direction",
	"C18|kbd|undeclared|uN*":        "kbd shared object: GetCPParams declares uNreceiver*/uNempty/uNfull (" + pb + "shr_kbd.go:66-78), names that are not in the port list",
	"C18|kbd|assign-kind|kN*":       "opcode k2r assigns kNreceiverRead procedurally, but because of the kbd u/k name mix-up it is only an implicit net (" + pb + "shr_kbd.go:66, op_k2r.go)",
	"C18|kbd|undefined-module|kN*":  "kbd shared object: Write_verilog writes only the kNrfifo module (`TODO : add the kbd module`, " + bmp + "shr_kbd.go:104) while bondmachine.v instantiates module kN",
	"C18|k2r+u2r|syntax|duplicate-decl:uN*": "kbd and uart on the same processor: kbd's GetCPParams uses the uart prefix `u` (" + pb + "shr_kbd.go:66), so uNreceiver* is declared twice",

	"C18|lfsr8|port-count|lfsr8N*": "lfsr8 shared object attached to more than one processor: the module has a single lfsr8out port (" + bmp + "shr_lfsr8.go:71) but bondmachine.v connects one output per attached processor",
	"C18|queue|multi-driver|pNqN*": "queue shared object with two attached processors: the bmstack module lists all sender ports before all receiver ports, bondmachine.v connects them positionally processor by processor (" + bmp + "shr_queue.go Write_verilog vs GetPerProcPortsHeader): processor outputs meet module outputs",
	"C18|stack|multi-driver|pNstN*": "stack shared object with two attached processors: the bmstack module lists all sender ports before all receiver ports, bondmachine.v connects them positionally processor by processor (" + bmp + "shr_stack.go Write_verilog vs GetPerProcPortsHeader): processor outputs meet module outputs",

	"C18|uart|assign-kind|pNuart_recvAck": "uart wrapper template declares the receive handshake with swapped directions (`output {{e}}Read, input {{e}}Ack`, " + bmp + "files_uart_so.go:15-16): the rfifo instance output recvAck drives an input port",
	"C18|uart|multi-driver|pNuN*":         "uart: because the wrapper declares recvRead as an output (" + bmp + "files_uart_so.go:15), pNuNreceiverRead is driven by both the processor and the uart instance in bondmachine.v",
	"C18|uart|undefined-module|uN*":       "uart wrapper always instantiates uNrfifo and uNwfifo, but Write_verilog writes a fifo only when some attached processor has u2r resp. r2u (" + bmp + "shr_uart.go:105,121): with one direction (or none) the other fifo module is undefined",

	"C18|vtextmem|syntax|duplicate-decl:cptextvideoram": "two vtextmem shared objects: every vtmN.v defines the helper module cptextvideoram again (" + bmp + "shr_vtextmem.go:156)",
	"C18|2xvtextmem|undeclared|vtmN*":                   "two vtextmem shared objects on one processor: vtmN_din_i/_addr_i/_wren_i/_en_i are declared only for seq==0 (" + pb + "shr_vtextmem.go:58-63) but assigned for every instance",
}
