package main

// A Job describes one machine (or template instance); runJob renders its HDL file set through the
// real generators (in a private scratch CWD, because several generators drop side files into the CWD)
// and lints the set with vsim. Jobs are executed by worker *processes* (os.Chdir is process-global).

import (
	"crypto/sha256"
	"encoding/hex"
	"fmt"
	"os"
	"path/filepath"
	"sort"
	"strconv"
	"strings"
	"time"

	"verif/engines/vsim"
	"verif/lib/bmgen"

	"github.com/BondMachineHQ/BondMachine/pkg/bmnumbers"
	"github.com/BondMachineHQ/BondMachine/pkg/bmreqs"
	"github.com/BondMachineHQ/BondMachine/pkg/bmserialize"
	"github.com/BondMachineHQ/BondMachine/pkg/bmstack"
	"github.com/BondMachineHQ/BondMachine/pkg/bondmachine"
	"github.com/BondMachineHQ/BondMachine/pkg/procbuilder"
	"github.com/BondMachineHQ/BondMachine/pkg/simbox"
)

type ProcSpec struct {
	Rsize, R, N, M, L, O uint8
	Ops                  []string
	Mode                 string
	Threaded             int
	// KeepOrder: the opcode list is used in the order given (a machine JSON keeps its file order on load) instead of
	// being sorted by name
	KeepOrder bool `json:",omitempty"`
}

func (p ProcSpec) String() string {
	ko := ""
	if p.KeepOrder {
		ko = " (list order kept)"
	}
	return fmt.Sprintf("ops=%s%s mode=%s Rsize=%d R=%d N=%d M=%d L=%d O=%d Thr=%d", strings.Join(p.Ops, ","), ko, p.Mode, p.Rsize, p.R, p.N, p.M, p.L, p.O, p.Threaded)
}

type Job struct {
	Kind  string     `json:"kind"`            // proc | bm | stack | serialize
	Group string     `json:"group"`           // enumeration family (single, pair, full, dyn, thr, hwopt, so, mix, bond, ...)
	Procs []ProcSpec `json:"procs,omitempty"` // proc: exactly one
	SOs   []string   `json:"sos,omitempty"`   // constructor strings, Add_shared_objects order
	Links [][2]int   `json:"links,omitempty"` // (processor, shared object)
	Bonds [][2]string `json:"bonds,omitempty"`
	In    int        `json:"in,omitempty"`  // external inputs (bm kind)
	Out   int        `json:"out,omitempty"` // external outputs (bm kind)
	Real  bool       `json:"real,omitempty"` // true: Bondmachine.Write_verilog into the CWD and read back; false: bmgen.RenderFiles
	// DomainOf[p] = index into Procs of the domain processor p is created from (nil: processor p uses
	// domain p). Lets processors share a domain or use the domains in another order, as the CLI allows.
	DomainOf []int `json:"domain_of,omitempty"`
	HwOpt []string   `json:"hwopt,omitempty"`
	// hw-optimisation requirement sets (used registers) given to every opcode of processor 0
	DestRegs, SrcRegs []string `json:",omitempty"`
	Commented         bool     `json:"commented,omitempty"`
	// templates
	MemType            string `json:"memtype,omitempty"`
	Depth, NS, NR, DS  int    `json:",omitempty"`
	Direction, Model   string `json:",omitempty"`
	Terminals, TDS, SDS int   `json:",omitempty"`
}

func (j Job) String() string {
	switch j.Kind {
	case "proc", "bm":
		var p []string
		for i, s := range j.Procs {
			p = append(p, fmt.Sprintf("p%d{%s}", i, s))
		}
		s := j.Kind + " " + strings.Join(p, " ")
		if len(j.SOs) > 0 {
			s += fmt.Sprintf(" so=%v links=%v", j.SOs, j.Links)
		}
		if len(j.Bonds) > 0 || j.In > 0 || j.Out > 0 {
			s += fmt.Sprintf(" in=%d out=%d bonds=%v", j.In, j.Out, j.Bonds)
		}
		if len(j.HwOpt) > 0 {
			s += fmt.Sprintf(" hwopt=%v dest=%v src=%v", j.HwOpt, j.DestRegs, j.SrcRegs)
		}
		if j.Real {
			s += " via=Write_verilog"
		}
		return s
	case "stack":
		return fmt.Sprintf("bmstack %s depth=%d senders=%d receivers=%d datasize=%d", j.MemType, j.Depth, j.NS, j.NR, j.DS)
	case "serialize":
		return fmt.Sprintf("bmserialize %s model=%s terminals=%d tds=%d sds=%d", j.Direction, j.Model, j.Terminals, j.TDS, j.SDS)
	}
	return j.Kind
}

type D struct {
	Class, File, Module, Ident, Msg string
	Line                            int
	Text                            string `json:",omitempty"` // the source line
	Tpl                             string `json:",omitempty"` // "bmstack" when the file is an instance of the bmstack template
}

type Result struct {
	Skipped     string   `json:"skipped,omitempty"` // "constraint: ..." (machine not accepted by the tool)
	GenErr      string   `json:"generr,omitempty"`  // generator returned an error / panicked: no file set
	Files       []string `json:"files,omitempty"`
	Modules     int      `json:"modules,omitempty"`
	Bytes       int      `json:"bytes,omitempty"`
	Hash        string   `json:"hash,omitempty"`
	Diags       []D      `json:"diags,omitempty"` // property classes only
	Unsupported int      `json:"unsupported,omitempty"`
	External    []string `json:"external,omitempty"` // instantiated allow-listed external IP
	TBSyntax    int      `json:"tbsyntax,omitempty"`
	ArrayFiltered int    `json:"arrayfiltered,omitempty"` // vsim multi-driver reports on arrays proved spurious (arrays.go)
	Us          int64    `json:"us,omitempty"` // wall time of the job in the worker (diagnostics only, never an oracle)
}

// externalIP: module names the generated set may instantiate without defining. Only documented vendor
// primitives. The unchanged generators under the enumerated space instantiate none of them except where
// listed here (kept minimal on purpose: anything else undefined is a finding).
var externalIP = map[string]bool{}

var lqInit bool

func initDyn() {
	if lqInit {
		return
	}
	lqInit = true
	ranges := map[int]bmnumbers.LinearDataRange{0: {Max: 8}, 1: {Max: 100}}
	for i, t := range procbuilder.AllDynamicalInstructions {
		if t.GetName() == "dyn_linear_quantizer" {
			d := t.(procbuilder.DynLinearQuantizer)
			d.Ranges = &ranges
			procbuilder.AllDynamicalInstructions[i] = d
		}
	}
}

func cleanCWD() {
	ents, _ := os.ReadDir(".")
	for _, e := range ents {
		os.RemoveAll(e.Name())
	}
}

// collectCWD adds every regular file of the CWD to the set (all generators write Verilog side files
// with a .v suffix; anything else is kept too and reported under its name so nothing is hidden).
func collectCWD(files map[string]string) {
	ents, _ := os.ReadDir(".")
	for _, e := range ents {
		if e.IsDir() {
			continue
		}
		b, err := os.ReadFile(e.Name())
		if err != nil {
			continue
		}
		if _, dup := files[e.Name()]; !dup {
			files[e.Name()] = string(b)
		}
	}
}

func buildBM(j Job) (*bondmachine.Bondmachine, *bondmachine.Config, string, error) {
	initDyn()
	b := new(bondmachine.Bondmachine)
	b.Init()
	if len(j.Procs) == 0 {
		return nil, nil, "", fmt.Errorf("no processors")
	}
	b.Rsize = j.Procs[0].Rsize
	for i, p := range j.Procs {
		m, err := bmgen.NewMachine(bmgen.ArchSpec{Rsize: p.Rsize, R: p.R, N: p.N, M: p.M, L: p.L, O: p.O, Ops: p.Ops, Modes: []string{p.Mode}, Threaded: p.Threaded, KeepOrder: p.KeepOrder})
		if err != nil {
			return nil, nil, "", err
		}
		// the shared constraints string is what the tool fills in before ConstraintCheck-relevant use
		b.Domains = append(b.Domains, m)
		if j.DomainOf == nil {
			b.Add_processor(i)
		}
	}
	for _, d := range j.DomainOf {
		if _, err := b.Add_processor(d); err != nil {
			return nil, nil, "", err
		}
	}
	if j.Kind == "proc" {
		p := j.Procs[0]
		for i := 0; i < int(p.N); i++ {
			b.Add_input()
			b.Add_bond([]string{"i" + strconv.Itoa(i), "p0i" + strconv.Itoa(i)})
		}
		for i := 0; i < int(p.M); i++ {
			b.Add_output()
			b.Add_bond([]string{"o" + strconv.Itoa(i), "p0o" + strconv.Itoa(i)})
		}
	} else {
		for i := 0; i < j.In; i++ {
			b.Add_input()
		}
		for i := 0; i < j.Out; i++ {
			b.Add_output()
		}
		for _, bd := range j.Bonds {
			b.Add_bond([]string{bd[0], bd[1]})
		}
	}
	if len(j.SOs) > 0 {
		before := len(b.Shared_objects)
		b.Add_shared_objects(j.SOs)
		if len(b.Shared_objects)-before != len(j.SOs) {
			return nil, nil, "shared object constructor string not accepted by Instantiate", nil
		}
		if j.Kind == "proc" && j.Links == nil {
			for i := range j.SOs {
				b.Connect_processor_shared_object([]string{"0", strconv.Itoa(i)})
			}
		}
		for _, l := range j.Links {
			b.Connect_processor_shared_object([]string{strconv.Itoa(l[0]), strconv.Itoa(l[1])})
		}
	}
	// acceptance: Machine.ConstraintCheck with the shared constraints the tool would set
	for i, dom := range b.Processors {
		m := b.Domains[dom]
		var sl []string
		for _, so := range b.Shared_links[i] {
			sl = append(sl, b.Shared_objects[so].String())
		}
		m.Arch.Shared_constraints = strings.Join(sl, ",")
		if msg, ok := m.ConstraintCheck(); !ok {
			return nil, nil, "constraint: " + msg, nil
		}
	}
	conf := new(bondmachine.Config)
	conf.CommentedVerilog = j.Commented
	for _, o := range j.HwOpt {
		id := procbuilder.HwOptimizationId(o)
		if id == 0 {
			return nil, nil, "", fmt.Errorf("unknown hw optimisation %q", o)
		}
		conf.HwOptimizations = procbuilder.SetHwOptimization(conf.HwOptimizations, id)
	}
	if len(j.HwOpt) > 0 {
		rg := bmreqs.NewReqRoot()
		add := func(node, name, val string) {
			rg.Requirement(bmreqs.ReqRequest{Node: node, T: bmreqs.ObjectSet, Name: name, Value: val, Op: bmreqs.OpAdd})
		}
		add("/", "bm", "cps")
		for i, p := range j.Procs {
			id := strconv.Itoa(i)
			add("/bm:cps", "id", id)
			for _, op := range p.Ops {
				node := "/bm:cps/id:" + id
				add(node, "opcodes", op)
				for _, r := range j.DestRegs {
					add(node+"/opcodes:"+op, "destregs", r)
				}
				for _, r := range j.SrcRegs {
					add(node+"/opcodes:"+op, "sourceregs", r)
				}
			}
		}
		conf.ReqRoot = rg
	}
	return b, conf, "", nil
}

func render(j Job) (files map[string]string, skipped string, err error) {
	defer func() {
		if p := recover(); p != nil {
			err = fmt.Errorf("generator panic: %v", p)
		}
	}()
	files = map[string]string{}
	switch j.Kind {
	case "proc", "bm":
		b, conf, skip, e := buildBM(j)
		if e != nil || skip != "" {
			return nil, skip, e
		}
		if conf.ReqRoot != nil {
			defer conf.ReqRoot.Close()
		}
		if j.Real {
			if e := b.Write_verilog(conf, "iverilog", nil, nil, &simbox.Simbox{}); e != nil {
				return nil, "", e
			}
		} else {
			f, e := bmgen.RenderFiles(b, conf, "iverilog")
			if e != nil {
				return nil, "", e
			}
			files = f
		}
		collectCWD(files)
	case "stack":
		s := bmstack.CreateBasicStack()
		s.ModuleName = "bmstack"
		s.DataSize = j.DS
		s.Depth = j.Depth
		s.MemType = j.MemType
		for i := 0; i < j.NS; i++ {
			s.Senders = append(s.Senders, "s"+strconv.Itoa(i))
		}
		for i := 0; i < j.NR; i++ {
			s.Receivers = append(s.Receivers, "r"+strconv.Itoa(i))
		}
		v, e := s.WriteHDL()
		if e != nil {
			return nil, "", e
		}
		files["bmstack.v"] = v
	case "serialize":
		s := bmserialize.CreateBasicSerializer()
		s.ModuleName = "bmserialize"
		s.Direction = j.Direction
		s.Model = j.Model
		s.Terminals = j.Terminals
		s.TerminalDataSize = j.TDS
		s.SerialDataSize = j.SDS
		v, e := s.WriteHDL()
		if e != nil {
			return nil, "", e
		}
		files["bmserialize.v"] = v
	default:
		return nil, "", fmt.Errorf("unknown job kind %q", j.Kind)
	}
	return files, "", nil
}

var propertyClass = map[string]bool{"syntax": true, "undeclared": true, "undefined-module": true, "port-count": true,
	"assign-kind": true, "multi-driver": true, "duplicate-decl": true}

// tplOf says whether the module enclosing the given line is an instance of the bmstack template (the template is
// also appended to processor files by the call/stack opcodes, so the file name alone does not tell).
func tplOf(files map[string]string, f string, line int) string {
	ls := strings.Split(files[f], "\n")
	if line <= 0 || line > len(ls) {
		return ""
	}
	lo, hi := line-1, line-1
	for lo > 0 && !strings.HasPrefix(strings.TrimSpace(ls[lo]), "module ") {
		lo--
	}
	for hi < len(ls)-1 && !strings.HasPrefix(strings.TrimSpace(ls[hi]), "endmodule") {
		hi++
	}
	c := strings.Join(ls[lo:hi+1], "\n")
	if strings.Contains(c, "readneed") && strings.Contains(c, "writeneed") && strings.Contains(c, "recvSM") {
		return "bmstack"
	}
	return ""
}

func srcLine(files map[string]string, f string, line int) string {
	if line <= 0 {
		return ""
	}
	ls := strings.Split(files[f], "\n")
	if line-1 < len(ls) {
		t := strings.TrimSpace(ls[line-1])
		if len(t) > 160 {
			t = t[:160]
		}
		return t
	}
	return ""
}

func lintSet(files map[string]string, keep string) Result {
	var r Result
	set := map[string]string{}
	var tb string
	hasTB := false
	for n, c := range files {
		r.Files = append(r.Files, n)
		r.Bytes += len(c)
		if n == "bondmachine_tb.v" {
			tb, hasTB = c, true
			continue // the test bench is simulation-only text: syntax only, separately
		}
		set[n] = c
	}
	sort.Strings(r.Files)
	h := sha256.New()
	for _, n := range r.Files {
		h.Write([]byte(n))
		h.Write([]byte{0})
		h.Write([]byte(files[n]))
		h.Write([]byte{0})
	}
	r.Hash = hex.EncodeToString(h.Sum(nil)[:8])
	d, pd := vsim.Parse(set)
	r.Modules = len(d.Modules())
	all := append([]vsim.Diag(nil), pd...)
	all = append(all, d.Lint(externalIP)...)
	for _, x := range all {
		if x.Class == "unsupported" {
			r.Unsupported++
			continue
		}
		if !propertyClass[x.Class] {
			continue
		}
		if x.Class == "multi-driver" && arrayMultiDriverIsSpurious(d, x.Module, x.Ident) {
			r.ArrayFiltered++ // engine imprecision (whole-array approximation), see arrays.go
			continue
		}
		r.Diags = append(r.Diags, D{Class: x.Class, File: x.File, Module: x.Module, Ident: x.Ident, Msg: x.Msg, Line: x.Line, Text: srcLine(files, x.File, x.Line), Tpl: tplOf(files, x.File, x.Line)})
	}
	if hasTB {
		_, tpd := vsim.Parse(map[string]string{"bondmachine_tb.v": tb})
		for _, x := range tpd {
			if x.Class == "unsupported" {
				r.Unsupported++
			} else if x.Class == "syntax" {
				r.TBSyntax++
				r.Diags = append(r.Diags, D{Class: x.Class, File: x.File, Module: x.Module, Ident: x.Ident, Msg: x.Msg, Line: x.Line, Text: srcLine(files, x.File, x.Line)})
			}
		}
	}
	sort.SliceStable(r.Diags, func(a, b int) bool {
		x, y := r.Diags[a], r.Diags[b]
		if x.File != y.File {
			return x.File < y.File
		}
		if x.Line != y.Line {
			return x.Line < y.Line
		}
		if x.Class != y.Class {
			return x.Class < y.Class
		}
		return x.Ident < y.Ident
	})
	// one syntax diagnostic per source line (the lexer and the parser may both complain about the same token)
	{
		seenLine := map[string]bool{}
		out := r.Diags[:0]
		for _, x := range r.Diags {
			if x.Class == "syntax" {
				k := x.File + ":" + strconv.Itoa(x.Line)
				if seenLine[k] {
					continue
				}
				seenLine[k] = true
			}
			out = append(out, x)
		}
		r.Diags = out
	}
	if keep != "" {
		os.MkdirAll(keep, 0o755)
		for n, c := range files {
			os.WriteFile(filepath.Join(keep, n), []byte(c), 0o644)
		}
	}
	return r
}

// runJob must be called with the CWD inside a private scratch directory.
func runJob(j Job, keep string) (res Result) {
	t0 := time.Now()
	defer func() { res.Us = time.Since(t0).Microseconds() }()
	cleanCWD()
	files, skipped, err := render(j)
	defer cleanCWD()
	if skipped != "" {
		return Result{Skipped: skipped}
	}
	if err != nil {
		return Result{GenErr: err.Error()}
	}
	return lintSet(files, keep)
}
