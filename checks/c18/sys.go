package main

import (
	"os"
	"syscall"
)

func dupFD(fd int) int {
	n, err := syscall.Dup(fd)
	if err != nil {
		panic(err)
	}
	return n
}

// redirectStdout makes file descriptor 1 (and os.Stdout) point to f.
func redirectStdout(f *os.File) {
	if err := syscall.Dup3(int(f.Fd()), 1, 0); err != nil {
		panic(err)
	}
}
