package main

// Re-verification of vsim `multi-driver` diagnostics on ARRAYS (memories / net arrays).
// vsim's linter treats an indexed write to an array as a write to the whole array, so two continuous assigns
// to different elements (`assign TAG_CH[0] = ..; assign TAG_CH[1] = ..;`) or a generate loop with one always
// block per word are reported although they are legal Verilog. Here the drivers of such an identifier are
// collected again from the vsim AST with their constant word index (generate loops unrolled); the diagnostic is
// dropped only when EVERY driver has a constant word index and no word is driven from two different
// processes. Anything not provably disjoint keeps the diagnostic.

import (
	"verif/engines/vsim"
)

type arrDriver struct {
	block int
	word  int64
	known bool
}

type arrWalk struct {
	ident   string
	env     map[string]int64
	block   int
	drivers []arrDriver
	opaque  bool // an instance connection or something else we do not model touches the identifier
}

func constEval(x vsim.Expr, env map[string]int64) (int64, bool) {
	switch v := x.(type) {
	case *vsim.Num:
		if len(v.Val) == 0 {
			return 0, true
		}
		for _, l := range v.Val[1:] {
			if l != 0 {
				return 0, false
			}
		}
		if v.XZ != nil {
			return 0, false
		}
		return int64(v.Val[0]), true
	case *vsim.Ident:
		n, ok := env[v.Name]
		return n, ok
	case *vsim.Unary:
		a, ok := constEval(v.X, env)
		if !ok {
			return 0, false
		}
		switch v.Op {
		case "-":
			return -a, true
		case "+":
			return a, true
		}
		return 0, false
	case *vsim.Binary:
		a, ok1 := constEval(v.L, env)
		b, ok2 := constEval(v.R, env)
		if !ok1 || !ok2 {
			return 0, false
		}
		switch v.Op {
		case "+":
			return a + b, true
		case "-":
			return a - b, true
		case "*":
			return a * b, true
		case "<":
			return b2i(a < b), true
		case "<=":
			return b2i(a <= b), true
		case ">":
			return b2i(a > b), true
		case ">=":
			return b2i(a >= b), true
		case "==":
			return b2i(a == b), true
		case "!=":
			return b2i(a != b), true
		}
		return 0, false
	}
	return 0, false
}

func b2i(b bool) int64 {
	if b {
		return 1
	}
	return 0
}

func mentions(x vsim.Expr, name string) bool {
	switch v := x.(type) {
	case nil:
		return false
	case *vsim.Ident:
		return v.Name == name
	case *vsim.Index:
		return mentions(v.X, name) || mentions(v.I, name)
	case *vsim.RangeSel:
		return mentions(v.X, name) || mentions(v.A, name) || mentions(v.B, name)
	case *vsim.Concat:
		for _, p := range v.Parts {
			if mentions(p, name) {
				return true
			}
		}
	case *vsim.Repl:
		for _, p := range v.Parts {
			if mentions(p, name) {
				return true
			}
		}
	case *vsim.Unary:
		return mentions(v.X, name)
	case *vsim.Binary:
		return mentions(v.L, name) || mentions(v.R, name)
	case *vsim.Cond:
		return mentions(v.C, name) || mentions(v.T, name) || mentions(v.F, name)
	case *vsim.Call:
		for _, p := range v.Args {
			if mentions(p, name) {
				return true
			}
		}
	}
	return false
}

// lhs records the drivers contributed by one assignment target.
func (w *arrWalk) lhs(x vsim.Expr) {
	switch v := x.(type) {
	case *vsim.Concat:
		for _, p := range v.Parts {
			w.lhs(p)
		}
	case *vsim.Ident:
		if v.Name == w.ident {
			w.drivers = append(w.drivers, arrDriver{block: w.block})
		}
	case *vsim.Index:
		// ident[word]  or  ident[word][bit]
		base := v.X
		idx := v.I
		if in, ok := base.(*vsim.Index); ok {
			base, idx = in.X, in.I
		}
		if id, ok := base.(*vsim.Ident); ok && id.Name == w.ident {
			n, known := constEval(idx, w.env)
			w.drivers = append(w.drivers, arrDriver{block: w.block, word: n, known: known})
		}
	case *vsim.RangeSel:
		// ident[word][a:b]
		if in, ok := v.X.(*vsim.Index); ok {
			if id, ok := in.X.(*vsim.Ident); ok && id.Name == w.ident {
				n, known := constEval(in.I, w.env)
				w.drivers = append(w.drivers, arrDriver{block: w.block, word: n, known: known})
			}
		} else if id, ok := v.X.(*vsim.Ident); ok && id.Name == w.ident {
			w.drivers = append(w.drivers, arrDriver{block: w.block})
		}
	}
}

func (w *arrWalk) stmt(s vsim.Stmt) {
	switch v := s.(type) {
	case nil:
	case *vsim.Block:
		for _, x := range v.Stmts {
			w.stmt(x)
		}
	case *vsim.If:
		w.stmt(v.Then)
		w.stmt(v.Else)
	case *vsim.Case:
		for _, it := range v.Items {
			w.stmt(it.Body)
		}
	case *vsim.For:
		w.stmt(v.Body)
	case *vsim.While:
		w.stmt(v.Body)
	case *vsim.RepeatStmt:
		w.stmt(v.Body)
	case *vsim.AssignStmt:
		w.lhs(v.LHS)
	}
}

func (w *arrWalk) items(items []vsim.Item) {
	for _, it := range items {
		switch v := it.(type) {
		case *vsim.ContAssign:
			w.block++
			w.lhs(v.LHS)
		case *vsim.Always:
			w.block++
			w.stmt(v.Body)
		case *vsim.Initial:
			// initial blocks are not drivers for the multi-driver rule
		case *vsim.Instance:
			for _, c := range v.Conns {
				if mentions(c.X, w.ident) {
					w.opaque = true
				}
			}
		case *vsim.GenFor:
			init, ok := constEval(v.Init, w.env)
			if !ok {
				w.opaque = true
				continue
			}
			old, had := w.env[v.Var]
			i := init
			for n := 0; n < 4096; n++ {
				w.env[v.Var] = i
				c, ok := constEval(v.Cond, w.env)
				if !ok {
					w.opaque = true
					break
				}
				if c == 0 {
					break
				}
				w.items(v.Items)
				nx, ok := constEval(v.Step, w.env)
				if !ok {
					w.opaque = true
					break
				}
				i = nx
			}
			if had {
				w.env[v.Var] = old
			} else {
				delete(w.env, v.Var)
			}
		case *vsim.GenIf:
			c, ok := constEval(v.Cond, w.env)
			if !ok {
				w.opaque = true
				continue
			}
			if c != 0 {
				w.items(v.Then)
			} else {
				w.items(v.Else)
			}
		case *vsim.GenBlock:
			w.items(v.Items)
		}
	}
}

func isArrayDecl(m *vsim.Module, ident string) bool {
	var walk func(items []vsim.Item) bool
	walk = func(items []vsim.Item) bool {
		for _, it := range items {
			switch v := it.(type) {
			case *vsim.Decl:
				for _, n := range v.Names {
					if n.Name == ident && n.ArrA != nil {
						return true
					}
				}
			case *vsim.GenFor:
				if walk(v.Items) {
					return true
				}
			case *vsim.GenBlock:
				if walk(v.Items) {
					return true
				}
			case *vsim.GenIf:
				if walk(v.Then) || walk(v.Else) {
					return true
				}
			}
		}
		return false
	}
	return walk(m.Items)
}

// arrayMultiDriverIsSpurious reports whether a vsim multi-driver diagnostic on ident in module m is only due to
// the whole-array approximation.
func arrayMultiDriverIsSpurious(d *vsim.Design, module, ident string) bool {
	m := d.Module(module)
	if m == nil || m.Broken != nil || !isArrayDecl(m, ident) {
		return false
	}
	// parameters with constant defaults take part in generate bounds
	env := map[string]int64{}
	for _, it := range m.Items {
		if dc, ok := it.(*vsim.Decl); ok && (dc.Kind == "parameter" || dc.Kind == "localparam") {
			for _, n := range dc.Names {
				if v, ok := constEval(n.Init, env); ok {
					env[n.Name] = v
				}
			}
		}
	}
	w := &arrWalk{ident: ident, env: env}
	w.items(m.Items)
	if w.opaque || len(w.drivers) == 0 {
		return false
	}
	owner := map[int64]int{}
	for _, dr := range w.drivers {
		if !dr.known {
			return false
		}
		if b, seen := owner[dr.word]; seen && b != dr.block {
			return false
		}
		owner[dr.word] = dr.block
	}
	return true
}
