package main

import (
	"bufio"
	"encoding/json"
	"fmt"
	"io"
	"os"
	"os/exec"
	"runtime"
	"runtime/pprof"
	"sync"
)

// workerMain: executed as `bin/c18 worker [keepdir]`. Reads one JSON job per line on stdin, answers one JSON
// result per line on stdout. Runs inside its own scratch CWD (removed on exit).
func workerMain() {
	// the master passes a scratch root that it removes itself, so nothing is left behind even when a generator
	// kills the worker (log.Fatal / os.Exit skip the deferred cleanup)
	dir, err := os.MkdirTemp(os.Getenv("C18_SCRATCH"), "verif-c18-w-")
	if err != nil {
		fmt.Fprintln(os.Stderr, "worker: cannot create scratch dir:", err)
		os.Exit(3)
	}
	defer os.RemoveAll(dir)
	if err := os.Chdir(dir); err != nil {
		fmt.Fprintln(os.Stderr, "worker: chdir:", err)
		os.Exit(3)
	}
	// the generators print progress / debug text on stdout: keep the protocol channel private
	proto := os.NewFile(uintptr(dupFD(1)), "proto")
	devnull, _ := os.OpenFile(os.DevNull, os.O_WRONLY, 0)
	redirectStdout(devnull)
	if pf := os.Getenv("C18_PROF"); pf != "" {
		f, _ := os.Create(pf)
		pprof.StartCPUProfile(f)
		defer pprof.StopCPUProfile()
	}
	in := bufio.NewReaderSize(os.Stdin, 1<<20)
	out := bufio.NewWriter(proto)
	for {
		line, err := in.ReadBytes('\n')
		if len(line) > 0 {
			var j Job
			if e := json.Unmarshal(line, &j); e != nil {
				fmt.Fprintln(os.Stderr, "worker: bad job:", e)
				os.RemoveAll(dir)
				os.Exit(3)
			}
			r := runJob(j, "")
			b, _ := json.Marshal(r)
			out.Write(b)
			out.WriteByte('\n')
			out.Flush()
		}
		if err != nil {
			break
		}
	}
}

var scratchRoot string

type worker struct {
	cmd *exec.Cmd
	in  io.WriteCloser
	out *bufio.Reader
}

func startWorker() (*worker, error) {
	exe, err := os.Executable()
	if err != nil {
		return nil, err
	}
	cmd := exec.Command(exe, "worker")
	cmd.Stderr = os.Stderr
	cmd.Env = append(os.Environ(), "GOMAXPROCS=1", "GOGC=200", "C18_SCRATCH="+scratchRoot)
	cmd.Dir = scratchRoot
	in, err := cmd.StdinPipe()
	if err != nil {
		return nil, err
	}
	op, err := cmd.StdoutPipe()
	if err != nil {
		return nil, err
	}
	if err := cmd.Start(); err != nil {
		return nil, err
	}
	return &worker{cmd: cmd, in: in, out: bufio.NewReaderSize(op, 1<<20)}, nil
}

func (w *worker) do(j Job) (Result, error) {
	b, _ := json.Marshal(j)
	b = append(b, '\n')
	if _, err := w.in.Write(b); err != nil {
		return Result{}, err
	}
	line, err := w.out.ReadBytes('\n')
	if err != nil {
		return Result{}, err
	}
	var r Result
	if err := json.Unmarshal(line, &r); err != nil {
		return Result{}, err
	}
	return r, nil
}

func (w *worker) stop() {
	w.in.Close()
	w.cmd.Wait()
}

// runAll executes the jobs on a pool of worker processes; results are stored by job index, so the
// outcome does not depend on scheduling. A worker that dies (a generator calling os.Exit / a fatal
// runtime error) is restarted and the job is recorded as a generator error.
func runAll(jobs []Job, progress func(done int)) []Result {
	root, err := os.MkdirTemp("", "verif-c18-")
	if err != nil {
		fmt.Fprintln(os.Stderr, "cannot create scratch dir:", err)
		os.Exit(2)
	}
	scratchRoot = root
	defer os.RemoveAll(root)
	n := runtime.NumCPU()
	if n > 16 {
		n = 16
	}
	if n > len(jobs) {
		n = len(jobs)
	}
	if n < 1 {
		n = 1
	}
	res := make([]Result, len(jobs))
	idx := make(chan int, 256)
	var wg sync.WaitGroup
	var mu sync.Mutex
	done := 0
	for k := 0; k < n; k++ {
		wg.Add(1)
		go func() {
			defer wg.Done()
			w, err := startWorker()
			if err != nil {
				fmt.Fprintln(os.Stderr, "cannot start worker:", err)
				os.Exit(2)
			}
			for i := range idx {
				r, err := w.do(jobs[i])
				if err != nil {
					w.stop()
					r = Result{GenErr: "worker process died while generating (os.Exit / fatal error in the generator): " + err.Error()}
					w, err = startWorker()
					if err != nil {
						fmt.Fprintln(os.Stderr, "cannot restart worker:", err)
						os.Exit(2)
					}
				}
				res[i] = r
				mu.Lock()
				done++
				d := done
				mu.Unlock()
				if progress != nil && d%2000 == 0 {
					progress(d)
				}
			}
			w.stop()
		}()
	}
	for i := range jobs {
		idx <- i
	}
	close(idx)
	wg.Wait()
	return res
}
