// C18 — every generated HDL file set is self-consistent and synthesizable Verilog.
//
// Exploration (exhaustive over a bounded configuration space, no sampling): every configuration is
// rendered by the real generators and the resulting *file set* is parsed and linted by engines/vsim.
// Oracle: no diagnostic of the classes {syntax, undeclared identifier, undefined module, port-count
// mismatch, wrong assignment kind, multiple drivers} (duplicate declarations are reported as syntax-level
// errors with their own signature).
package main

import (
	"encoding/json"
	"flag"
	"fmt"
	"os"
	"sort"
	"strings"
	"time"

	"verif/lib/vlib"
)

var dumpFlag = flag.String("dump", "", "write the raw per-signature table (JSON) to this file")
var proposeFlag = flag.String("propose", "", "write proposed known-finding entries for the signatures seen to this file")
var keepFlag = flag.String("keep", "", "with -replay: keep the generated files in this directory")

func main() {
	if len(os.Args) > 1 && os.Args[1] == "worker" {
		workerMain()
		return
	}
	run := vlib.Start("C18", "exploration")
	if run.Replay != "" {
		replay(run)
		return
	}
	start := time.Now()
	e := enumerate(run.Thorough())
	res := runAll(e.jobs, func(d int) {
		fmt.Fprintf(os.Stderr, "  %d/%d jobs (%.0fs)\n", d, len(e.jobs), time.Since(start).Seconds())
	})
	if os.Getenv("C18_TIMING") != "" {
		tot := map[string]int64{}
		var worst int64
		wi := 0
		for i, r := range res {
			tot[e.jobs[i].Group] += r.Us
			if r.Us > worst {
				worst, wi = r.Us, i
			}
		}
		fmt.Fprintf(os.Stderr, "timing(us) by group: %v\nworst %dus: %s\n", tot, worst, e.jobs[wi])
	}
	report(run, e, res)
}

type replayCase struct {
	Job   Job    `json:"job"`
	Diag  D      `json:"diag"`
	Cause string `json:"cause,omitempty"`
}

func replay(run *vlib.Run) {
	var rc replayCase
	sig, err := vlib.LoadReplay(run.Replay, &rc)
	if err != nil {
		fmt.Fprintln(os.Stderr, "cannot load replay:", err)
		os.Exit(2)
	}
	fmt.Printf("replaying %s\n  case: %s\n", sig, rc.Job)
	dir, cleanup := vlib.Scratch("c18-replay")
	defer cleanup()
	wd, _ := os.Getwd()
	os.Chdir(dir)
	keep := *keepFlag
	if keep != "" && !strings.HasPrefix(keep, "/") {
		keep = wd + "/" + keep
	}
	r := runJob(rc.Job, keep)
	os.Chdir(wd)
	if r.Skipped != "" {
		fmt.Println("  machine not accepted by the tool:", r.Skipped)
	}
	if r.GenErr != "" {
		fmt.Println("  generator error:", r.GenErr)
	}
	fmt.Printf("  files: %v  modules=%d unsupported(not checked)=%d\n", r.Files, r.Modules, r.Unsupported)
	hit := false
	for _, d := range r.Diags {
		mark := " "
		if diagKey(d) == diagKey(rc.Diag) {
			mark, hit = "*", true
		}
		fmt.Printf(" %s %s:%d [%s] module %s, %s: %s\n      | %s\n", mark, d.File, d.Line, d.Class, d.Module, d.Ident, d.Msg, d.Text)
	}
	if hit {
		fmt.Println("  => the recorded diagnostic is reproduced on the current tree (lines marked *)")
		cleanup()
		os.Exit(1)
	}
	fmt.Println("  => the recorded diagnostic is NOT reproduced on the current tree")
	cleanup()
	os.Exit(0)
}

type sigInfo struct {
	Sig     string
	Cases   int
	First   int // job index of the first case (enumeration order)
	Diag    D
	Cause   string
	Groups  map[string]int
}

func report(run *vlib.Run, e *enumeration, res []Result) {
	at := attribute(e.jobs, res)

	sigs := map[string]*sigInfo{}
	evaluations, skipped, generr, unsupported, clean, failing, arrayFiltered := 0, 0, 0, 0, 0, 0, 0
	files, modules, bytes := 0, 0, 0
	distinct := map[string]bool{}
	groups := map[string]int{}
	external := map[string]int{}
	genErrs := map[string]int{}
	tb := 0
	for i, r := range res {
		j := e.jobs[i]
		groups[j.Group]++
		if r.Skipped != "" {
			skipped++
			continue
		}
		if r.GenErr != "" {
			generr++
			k := j.Group + ": " + r.GenErr
			if len(k) > 200 {
				k = k[:200]
			}
			genErrs[k]++
			continue
		}
		evaluations++
		files += len(r.Files)
		modules += r.Modules
		bytes += r.Bytes
		unsupported += r.Unsupported
		arrayFiltered += r.ArrayFiltered
		distinct[r.Hash] = true
		for _, f := range r.Files {
			if f == "bondmachine_tb.v" {
				tb++
			}
		}
		for _, x := range r.External {
			external[x]++
		}
		if len(r.Diags) == 0 {
			clean++
			if clean <= 3 {
				run.Sample(map[string]any{"case": j.String(), "files": r.Files, "modules": r.Modules, "diags": 0})
			}
			continue
		}
		failing++
		seen := map[string]bool{}
		for di, d := range r.Diags {
			for _, a := range at.sigs(i, di) {
				if seen[a.sig] {
					continue
				}
				seen[a.sig] = true
				s := sigs[a.sig]
				if s == nil {
					s = &sigInfo{Sig: a.sig, First: i, Diag: d, Cause: a.cause, Groups: map[string]int{}}
					sigs[a.sig] = s
				}
				s.Cases++
				s.Groups[j.Group]++
			}
		}
	}
	order := make([]string, 0, len(sigs))
	for s := range sigs {
		order = append(order, s)
	}
	sort.Strings(order)

	var prop []proposed
	for _, sg := range order {
		s := sigs[sg]
		j := e.jobs[s.First]
		what := describe(s)
		run.Report(s.Sig, what, replayCase{Job: j, Diag: s.Diag, Cause: s.Cause})
		// Report counts one case per call; account for the remaining cases of a known finding
		for k := 1; k < s.Cases; k++ {
			if !run.Report(s.Sig, what, nil) {
				break
			}
		}
		prop = append(prop, proposed{Property: "C18", Signature: s.Sig, What: what, Example: j.String(), cases: s.Cases})
	}
	if *proposeFlag != "" {
		writeProposal(*proposeFlag, run.Tier, prop)
	}
	if *dumpFlag != "" {
		var out []map[string]any
		for _, sg := range order {
			s := sigs[sg]
			out = append(out, map[string]any{"sig": s.Sig, "cases": s.Cases, "groups": s.Groups, "first": e.jobs[s.First].String(), "diag": s.Diag, "cause": s.Cause})
		}
		b, _ := json.MarshalIndent(out, "", " ")
		os.WriteFile(*dumpFlag, b, 0o644)
	}

	run.Set("evaluations", evaluations)
	run.Set("distinct_nontrivial", len(distinct))
	run.Set("rule", "for every enumerated machine accepted by Machine.ConstraintCheck (with the shared objects / RAM / inputs / outputs its opcodes need), "+
		"the complete file set written by the generators (arch_N.v, pN.v, pNrom.v, pNram.v, shared objects, bondmachine.v, CWD side files) parses and lints "+
		"with no diagnostic of class syntax / undeclared / undefined-module / port-count / assign-kind / multi-driver / duplicate-decl (engines/vsim)")
	run.Set("exhaustive", true)
	run.Set("jobs_enumerated", len(e.jobs))
	run.Set("jobs_by_group", groups)
	run.Set("not_accepted_by_ConstraintCheck", skipped)
	run.Set("premise_unsatisfiable_dropped", e.premise)
	run.Set("generator_errors_no_fileset", generr)
	if len(genErrs) > 0 {
		run.Set("generator_error_kinds", genErrs)
	}
	run.Set("filesets_clean", clean)
	run.Set("filesets_with_diagnostics", failing)
	run.Set("files_linted", files)
	run.Set("modules_linted", modules)
	run.Set("bytes_linted", bytes)
	run.Set("unsupported_constructs_not_checked", unsupported)
	run.Set("testbenches_syntax_only", tb)
	run.Set("engine_array_multidriver_reports_proved_spurious", arrayFiltered)
	run.Set("distinct_signatures", len(order))
	run.Set("external_ip_allow_list", []string{})
	run.Set("bounds", e.bounds)
	run.Assume("vsim (engines/vsim) is the reference Verilog-2001 front end; constructs it reports as `unsupported` are counted, not judged")
	run.Assume("an opcode is only put on an architecture that offers what it needs (its shared object attached, L>0 for RAM opcodes and for vn/hy modes, N>0 / M>0 for input / output opcodes); those needs are not enforced by ConstraintCheck and the dropped combinations are counted in premise_unsatisfiable_dropped")
	run.Assume("bondmachine_tb.v (simulation-only test bench) is checked for syntax only and kept out of the linted set")
	run.Assume("the FloPoCo dynamic family is not enumerated: it shells out to the external flopoco binary and emits VHDL")
	run.Finish()
}

type proposed struct {
	Property      string `json:"property"`
	Signature     string `json:"signature"`
	What          string `json:"what"`
	CasesQuick    int    `json:"cases_quick"`
	CasesThorough int    `json:"cases_thorough"`
	Example       string `json:"example,omitempty"`
	cases         int
}

// writeProposal merges the signatures of this run into the proposal file: the counts of the other tier are kept.
func writeProposal(path, tier string, now []proposed) {
	old := map[string]proposed{}
	if b, err := os.ReadFile(path); err == nil {
		var l []proposed
		if json.Unmarshal(b, &l) == nil {
			for _, p := range l {
				old[p.Signature] = p
			}
		}
	}
	for k, p := range old {
		if tier == "thorough" {
			p.CasesThorough = 0
		} else {
			p.CasesQuick = 0
		}
		old[k] = p
	}
	for _, p := range now {
		o, ok := old[p.Signature]
		if !ok {
			o = p
		}
		o.What = p.What
		if o.Example == "" {
			o.Example = p.Example
		}
		if tier == "thorough" {
			o.CasesThorough = p.cases
		} else {
			o.CasesQuick = p.cases
			o.Example = p.Example
		}
		old[p.Signature] = o
	}
	var keys []string
	for k, p := range old {
		if p.CasesQuick > 0 || p.CasesThorough > 0 {
			keys = append(keys, k)
		}
	}
	sort.Strings(keys)
	out := make([]proposed, 0, len(keys))
	for _, k := range keys {
		out = append(out, old[k])
	}
	b, _ := json.MarshalIndent(out, "", " ")
	os.WriteFile(path, append(b, '\n'), 0o644)
}

func describe(s *sigInfo) string {
	if w, ok := whats[s.Sig]; ok {
		return w
	}
	d := s.Diag
	w := fmt.Sprintf("%s: %s (%s:%d `%s`)", d.Class, d.Msg, d.File, d.Line, d.Text)
	if s.Cause != "" {
		w = s.Cause + " — " + w
	}
	return w
}
