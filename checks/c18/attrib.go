package main

// Attribution: turns a lint diagnostic of one configuration into a signature
//   C18|<generator component>|<diag class>|<identifier stem or syntax detail>
// The component is the *generator part responsible*, found by differential analysis over the enumeration
// (never the configuration): file of origin for shared objects / templates / rom / ram; for text inside a
// processor module, which single-opcode / bare-shared-object / `nop` baseline already shows the same
// diagnostic on the same architecture; for failures that need two opcodes, the opcode that collides with
// every other declarer of the identifier ("hub" of the pair graph).

import (
	"fmt"
	"regexp"
	"sort"
	"strconv"
	"strings"
)

type asig struct{ sig, cause string }

var soShort = map[string]string{"br": "barrier", "ch": "channel", "k": "kbd", "lfsr8": "lfsr8", "q": "queue", "sh": "sharedmem", "st": "stack", "u": "uart", "vtm": "vtextmem"}

var (
	reSOFile  = regexp.MustCompile(`^(br|ch|k|lfsr8|q|sh|st|u|vtm)[0-9]+`)
	reSOIdent = regexp.MustCompile(`^(p[0-9]+)?(br|ch|k|lfsr8|q|sh|st|u|vtm)[0-9]+`)
	reProcF   = regexp.MustCompile(`^p([0-9]+)\.v$`)
	reRomF    = regexp.MustCompile(`^p[0-9]+rom\.v$`)
	reRamF    = regexp.MustCompile(`^p[0-9]+ram\.v$`)
	reArchF   = regexp.MustCompile(`^arch_[0-9]+\.v$`)
	reDigits  = regexp.MustCompile(`[0-9]+`)
	reIdentTk = regexp.MustCompile(`[A-Za-z_][A-Za-z_0-9$]*`)
	reDynName = regexp.MustCompile(`^(calla|callo|ret|push|pull|rsets|addfps|multfps|divfps|addfxps|multfxps|divfxps|addlqs|multlqs|divlqs|addflpe|multflpe|divflpe)[0-9]`)
)

// names that legitimately contain digits and must survive the digit -> N normalisation
var protect = []string{"lfsr82r", "lfsr8", "r2owaa", "r2owa", "i2rw", "ro2rri", "ro2r", "m2rri", "r2mri", "r2vri", "sicv2", "sicv3", "addf16", "multf16", "divf16",
	"i2r", "r2o", "m2r", "r2m", "q2r", "r2q", "r2s", "s2r", "r2t", "t2r", "r2u", "u2r", "r2v", "k2r", "jgt0f", "ch2proc", "proc2ch", "w2r", "w2w", "r2r", "r2w"}

func normIdent(s string) string {
	if s == "" {
		return s
	}
	for i, p := range protect {
		s = strings.ReplaceAll(s, p, "\x01"+string(rune('A'+i))+"\x02")
	}
	s = reDigits.ReplaceAllString(s, "N")
	for i, p := range protect {
		s = strings.ReplaceAll(s, "\x01"+string(rune('A'+i))+"\x02", p)
	}
	return s
}

var (
	reStemSO     = regexp.MustCompile(`^(pN)?(br|ch|k|lfsr8|q|sh|st|u|vtm)N.*$`)
	reStemThread = regexp.MustCompile(`^threadStackN.+$`)
	reStemStack  = regexp.MustCompile(`^regstackN?_?N?[a-zA-Z_]*?(SM|sender|receiver|empty|full).*$`)
	reStemUnit   = regexp.MustCompile(`^([A-Za-z][A-Za-z0-9]*_N)_.+$`)
	reStemCTX    = regexp.MustCompile(`^CTX[A-Z]+$`)
	reStemVN     = regexp.MustCompile(`^(vn_state|FETCH|WAIT|EXECUTE)$`)
	reStemChan   = regexp.MustCompile(`^(ch_num|count_seq_ch|op_channel|reg_num|wrd_ch|wwr_ch|reset_flag_ch|stat_op_ch)$`)
)

// stem merges the many identifiers of one generated block (all ports of one instance, all states of one
// state machine) into one name so that one root cause gives one signature.
func stem(n string) string {
	if m := reStemSO.FindStringSubmatch(n); m != nil {
		return m[1] + m[2] + "N*"
	}
	if reStemThread.MatchString(n) {
		return "threadStackN*"
	}
	if reStemStack.MatchString(n) {
		return "regstack*"
	}
	if m := reStemUnit.FindStringSubmatch(n); m != nil {
		return m[1] + "_*"
	}
	if reStemCTX.MatchString(n) {
		return "CTX*"
	}
	if reStemVN.MatchString(n) {
		return "vn_state*" // the von Neumann fetch state machine: vn_state and its FETCH/WAIT/EXECUTE states
	}
	if reStemChan.MatchString(n) {
		return "channel-regs*" // the bookkeeping registers the four channel opcodes declare for each other
	}
	return n
}

func opComponent(op string) string {
	if m := reDynName.FindStringSubmatch(op); m != nil {
		return "dyn:" + m[1]
	}
	return op
}

// detail of a diagnostic: identifier stem, or for syntax errors (no identifier) the normalised message plus the
// first identifier of the offending line.
func diagDetail(d D) string {
	if d.Ident != "" && d.Class != "syntax" {
		return stem(normIdent(d.Ident))
	}
	msg := normIdent(d.Msg)
	msg = strings.NewReplacer(" ", "-", "|", "/").Replace(msg)
	first := ""
	if t := reIdentTk.FindString(d.Text); t != "" {
		first = stem(normIdent(t))
	}
	if d.Ident != "" {
		first = stem(normIdent(d.Ident))
	}
	if first != "" {
		return msg + ":" + first
	}
	return msg
}

func diagKey(d D) string { return d.Class + "|" + diagDetail(d) }

type set map[string]bool

type attribution struct {
	jobs []Job
	res  []Result

	single   map[string]map[string]set // ctx -> op -> keys (processor-module keys of the single-opcode job)
	singleU  map[string]set            // op -> keys over every ctx
	soBase   map[string]map[string]set // ctx -> kind -> keys (nop + that shared object)
	soBaseU  map[string]set
	baseU    set
	topBase  set                       // keys seen in bondmachine.v / arch_N.v of machines without shared objects
	topKind  map[string]set            // kind -> keys seen in bondmachine.v / arch_N.v of machines whose only shared-object kind it is
	pairOnly map[string]map[[2]string]bool // key -> pairs showing it although neither member alone does
	cover    map[string]map[[2]string]string // key -> pair -> the member blamed for it ("" = both)
	pairFamily map[string]string // key -> dynamic family when every pair showing the key lies inside one family
}

// domIndex maps a processor index to the index of its domain in j.Procs
func domIndex(j Job, pi int) int {
	if j.DomainOf != nil && pi >= 0 && pi < len(j.DomainOf) {
		return j.DomainOf[pi]
	}
	return pi
}

func ctxOf(j Job, pi int) string {
	pi = domIndex(j, pi)
	if pi >= len(j.Procs) {
		pi = 0
	}
	p := j.Procs[pi]
	return fmt.Sprintf("%d/%d/%d/%d/%d/%d/%s/t%d/h%v%v%v/c%v", p.Rsize, p.R, p.N, p.M, p.L, p.O, p.Mode, p.Threaded, j.HwOpt, j.DestRegs, j.SrcRegs, j.Commented)
}

// procIndex returns the processor a diagnostic's file belongs to (pN.v), or -1.
func procIndex(d D) int {
	if m := reProcF.FindStringSubmatch(d.File); m != nil {
		n, _ := strconv.Atoi(m[1])
		return n
	}
	return -1
}

func procKeys(r Result, pi int) set {
	s := set{}
	for _, d := range r.Diags {
		if procIndex(d) == pi {
			s[diagKey(d)] = true
		}
	}
	return s
}

// kindsOn lists the shared-object kinds attached to processor pi of the job.
func kindsOn(j Job, pi int) []string {
	var k []string
	add := func(ctor string) { k = append(k, strings.SplitN(ctor, ":", 2)[0]) }
	if j.Kind == "proc" && j.Links == nil {
		for _, s := range j.SOs {
			add(s)
		}
		return k
	}
	for _, l := range j.Links {
		if l[0] == pi && l[1] < len(j.SOs) {
			add(j.SOs[l[1]])
		}
	}
	return k
}

func allKinds(j Job) []string {
	seen := map[string]bool{}
	var k []string
	for _, s := range j.SOs {
		n := strings.SplitN(s, ":", 2)[0]
		if !seen[n] {
			seen[n] = true
			k = append(k, n)
		}
	}
	sort.Strings(k)
	return k
}

func attribute(jobs []Job, res []Result) *attribution {
	a := &attribution{jobs: jobs, res: res, single: map[string]map[string]set{}, singleU: map[string]set{}, soBase: map[string]map[string]set{},
		soBaseU: map[string]set{}, baseU: set{}, topBase: set{}, topKind: map[string]set{}, pairOnly: map[string]map[[2]string]bool{}, cover: map[string]map[[2]string]string{}, pairFamily: map[string]string{}}
	union := func(m map[string]set, k string, s set) {
		if m[k] == nil {
			m[k] = set{}
		}
		for x := range s {
			m[k][x] = true
		}
	}
	// pass 1: single-opcode and bare shared-object baselines
	for i, j := range jobs {
		r := res[i]
		if r.Skipped != "" || r.GenErr != "" {
			continue
		}
		if j.Kind == "bm" && len(j.SOs) == 0 {
			for _, d := range r.Diags {
				if procIndex(d) < 0 {
					a.topBase[diagKey(d)] = true
				}
			}
		}
		if ks := allKinds(j); len(ks) == 1 {
			for _, d := range r.Diags {
				if d.File == "bondmachine.v" || reArchF.MatchString(d.File) {
					if a.topKind[ks[0]] == nil {
						a.topKind[ks[0]] = set{}
					}
					a.topKind[ks[0]][diagKey(d)] = true
				}
			}
		}
		if j.Kind != "proc" || len(j.Procs[0].Ops) != 1 {
			continue
		}
		op := j.Procs[0].Ops[0]
		c := ctxOf(j, 0)
		keys := procKeys(r, 0)
		if j.Group == "so-base" {
			kind := kindsOn(j, 0)[0]
			if a.soBase[c] == nil {
				a.soBase[c] = map[string]set{}
			}
			a.soBase[c][kind] = keys
			union(a.soBaseU, kind, keys)
			continue
		}
		if a.single[c] == nil {
			a.single[c] = map[string]set{}
		}
		a.single[c][op] = keys
		union(a.singleU, op, keys)
		if op == "nop" {
			for k := range keys {
				a.baseU[k] = true
			}
		}
	}
	// pass 2: pair-only keys
	for i, j := range jobs {
		r := res[i]
		if r.Skipped != "" || r.GenErr != "" || j.Kind != "proc" || len(j.Procs[0].Ops) != 2 {
			continue
		}
		ops := j.Procs[0].Ops
		c := ctxOf(j, 0)
		for k := range procKeys(r, 0) {
			if a.isBase(c, k) || len(a.soOwners(j, 0, c, k)) > 0 || a.owns(c, ops[0], k) || a.owns(c, ops[1], k) {
				continue
			}
			if a.pairOnly[k] == nil {
				a.pairOnly[k] = map[[2]string]bool{}
			}
			// unordered pair: the same two opcodes in another list order are the same pair
			pr := [2]string{ops[0], ops[1]}
			if pr[1] < pr[0] {
				pr[0], pr[1] = pr[1], pr[0]
			}
			a.pairOnly[k][pr] = true
		}
	}
	// per key: a greedy minimum vertex cover of the pair graph (largest degree first, ties by name). Every pair is
	// assigned to the cover member that removed it: the opcode that collides with (almost) every partner is the
	// cause, its partners are not.
	for k, pairs := range a.pairOnly {
		fam, same := "", true
		for p := range pairs {
			for _, op := range p {
				f := familyOf(op)
				if f == "" || (fam != "" && f != fam) {
					same = false
				}
				fam = f
			}
		}
		if same {
			a.pairFamily[k] = fam
		}
		left := map[[2]string]bool{}
		for p := range pairs {
			left[p] = true
		}
		a.cover[k] = map[[2]string]string{}
		for len(left) > 0 {
			deg := map[string]int{}
			for p := range left {
				deg[p[0]]++
				deg[p[1]]++
			}
			var ops []string
			for op := range deg {
				ops = append(ops, op)
			}
			sort.Slice(ops, func(x, y int) bool {
				if deg[ops[x]] != deg[ops[y]] {
					return deg[ops[x]] > deg[ops[y]]
				}
				return ops[x] < ops[y]
			})
			pick := ops[0]
			for p := range left {
				if p[0] == pick || p[1] == pick {
					if deg[pick] == 1 {
						a.cover[k][p] = "" // an isolated pair: named after both members
					} else {
						a.cover[k][p] = pick
					}
					delete(left, p)
				}
			}
		}
	}
	return a
}

func (a *attribution) isBase(c, k string) bool {
	if m := a.single[c]; m != nil {
		if s, ok := m["nop"]; ok {
			return s[k]
		}
	}
	return a.baseU[k]
}

func (a *attribution) owns(c, op, k string) bool {
	if m := a.single[c]; m != nil {
		if s, ok := m[op]; ok {
			return s[k]
		}
	}
	return a.singleU[op][k]
}

func (a *attribution) soOwners(j Job, pi int, c, k string) []string {
	var o []string
	seen := map[string]bool{}
	for _, kind := range kindsOn(j, pi) {
		if seen[kind] {
			continue
		}
		seen[kind] = true
		has := false
		if m := a.soBase[c]; m != nil {
			if s, ok := m[kind]; ok {
				has = s[k]
			} else {
				has = a.soBaseU[kind][k]
			}
		} else {
			has = a.soBaseU[kind][k]
		}
		if has {
			o = append(o, kind)
		}
	}
	return o
}

func kindFromIdent(id string) string {
	if m := reSOIdent.FindStringSubmatch(id); m != nil {
		return soShort[m[2]]
	}
	return ""
}

// components returns the generator components responsible for diagnostic di of job ji.
func (a *attribution) components(ji, di int) []string {
	j := a.jobs[ji]
	d := a.res[ji].Diags[di]
	k := diagKey(d)
	switch j.Kind {
	case "stack":
		return []string{"bmstack"}
	case "serialize":
		return []string{"bmserialize:" + j.Direction}
	}
	f := d.File
	switch {
	case d.Tpl == "bmstack":
		return []string{"bmstack"}
	case f == "bondmachine_tb.v":
		return []string{"testbench"}
	case reRomF.MatchString(f):
		return []string{"rom"}
	case reRamF.MatchString(f):
		return []string{"ram"}
	case reSOFile.MatchString(f):
		return []string{soShort[reSOFile.FindStringSubmatch(f)[1]]}
	case strings.HasPrefix(f, "threadStack"):
		return []string{"threading"}
	case f == "bondmachine.v" || reArchF.MatchString(f):
		where := "bondmachine-top"
		if f != "bondmachine.v" {
			where = "arch"
		}
		if a.topBase[k] {
			return []string{where}
		}
		kinds := allKinds(j)
		if len(kinds) == 1 {
			return []string{kinds[0]}
		}
		var ks []string
		for _, kd := range kinds {
			if a.topKind[kd][k] {
				ks = append(ks, kd)
			}
		}
		if len(ks) > 0 {
			return ks
		}
		if kd := kindFromIdent(d.Ident); kd != "" {
			return []string{kd}
		}
		if len(kinds) > 1 {
			return []string{strings.Join(kinds, "+")}
		}
		return []string{where}
	}
	pi := procIndex(d)
	if pi < 0 || domIndex(j, pi) >= len(j.Procs) {
		// a side file written by an opcode (ExtraFiles) or anything else
		return []string{"file:" + normIdent(strings.TrimSuffix(f, ".v"))}
	}
	ops := j.Procs[domIndex(j, pi)].Ops
	c := ctxOf(j, pi)
	if a.isBase(c, k) {
		return []string{"conproc"}
	}
	if so := a.soOwners(j, pi, c, k); len(so) > 0 {
		return so
	}
	var owners []string
	seen := map[string]bool{}
	for _, op := range ops {
		if op != "nop" && a.owns(c, op, k) {
			if oc := opComponent(op); !seen[oc] {
				seen[oc] = true
				owners = append(owners, oc)
			}
		}
	}
	if len(owners) > 0 {
		// an identifier carrying the port prefix of a shared object attached to this processor belongs to that
		// shared object's per-processor plumbing (GetArchHeader / GetCPParams), whichever opcode makes it appear
		if kd := kindFromIdent(d.Ident); kd != "" {
			for _, x := range kindsOn(j, pi) {
				if x == kd {
					return []string{kd}
				}
			}
		}
		return owners
	}
	if len(ops) == 1 {
		if j.Group == "so-base" {
			if kd := kindsOn(j, pi); len(kd) > 0 {
				return []string{kd[0]}
			}
		}
		return []string{opComponent(ops[0])}
	}
	// needs two opcodes
	if pairs := a.pairOnly[k]; pairs != nil {
		has := map[string]bool{}
		for _, op := range ops {
			has[op] = true
		}
		role := "user"
		if d.Class == "duplicate-decl" || d.Class == "multi-driver" {
			role = "declarer"
		}
		for p := range pairs {
			if !has[p[0]] || !has[p[1]] {
				continue
			}
			var cs []string
			if d.Class == "undefined-module" {
				// two opcodes return the same key from Op_instruction_verilog_extra_modules: conproc keeps one module
				cs = []string{"extra-module-dedup"}
			} else if fam := a.pairFamily[k]; fam != "" {
				cs = []string{"dyn-family:" + fam}
			} else if h := a.cover[k][p]; h != "" {
				cs = []string{opComponent(h) + "+" + diagDetail(d) + "-" + role}
			} else {
				x, y := opComponent(p[0]), opComponent(p[1])
				if y < x {
					x, y = y, x
				}
				cs = []string{x + "+" + y}
			}
			for _, cmp := range cs {
				if !seen[cmp] {
					seen[cmp] = true
					owners = append(owners, cmp)
				}
			}
		}
		if len(owners) > 0 {
			sort.Strings(owners)
			return owners
		}
	}
	// two shared objects on one processor
	if kd := kindsOn(j, pi); len(kd) >= 2 {
		sort.Strings(kd)
		u := kd[:1]
		for _, x := range kd[1:] {
			if x != u[len(u)-1] {
				u = append(u, x)
			}
		}
		if len(u) == 1 {
			return []string{"2x" + u[0]}
		}
		if kk := kindFromIdent(d.Ident); kk != "" && len(u) > 2 {
			return []string{kk + "+other-so"}
		}
		return []string{strings.Join(u, "+")}
	}
	if kd := kindFromIdent(d.Ident); kd != "" {
		return []string{kd}
	}
	return []string{"opcode-set:" + j.Group}
}

func (a *attribution) sigs(ji, di int) []asig {
	d := a.res[ji].Diags[di]
	class, detail := d.Class, diagDetail(d)
	if class == "duplicate-decl" {
		// a redeclaration is a syntax-level error for a standard front end; kept distinguishable
		class, detail = "syntax", "duplicate-decl:"+detail
	}
	var out []asig
	for _, c := range a.components(ji, di) {
		dt := detail
		if c == "extra-module-dedup" {
			dt = "opmodule_N" // whichever opcode's module lost the key clash
		}
		out = append(out, asig{sig: "C18|" + c + "|" + class + "|" + dt, cause: c})
	}
	return out
}
