package main

// Independent well-formedness validator for emitted BondMachines (does not use ConstraintCheck for
// its verdicts; ConstraintCheck is consulted only as an extra voice).

import (
	"fmt"
	"sort"
	"strconv"
	"strings"

	"github.com/BondMachineHQ/BondMachine/pkg/bondmachine"
	"github.com/BondMachineHQ/BondMachine/pkg/procbuilder"
)

type wfFail struct{ class, detail string }

// operands that are ROM locations (jump targets): opcode -> operand index
var jumpTarget = map[string]int{"j": 0, "jc": 0, "jo": 0, "jcmpl": 0, "jcmpo": 0, "jz": 1, "jgt0f": 1, "saj": 0, "ja": 0, "jcmpa": 0}

func wf(bm *bondmachine.Bondmachine) (fails []wfFail) {
	add := func(c, d string) { fails = append(fails, wfFail{c, d}) }
	if bm == nil {
		add("nil-machine", "front end returned no machine and no error")
		return
	}
	// ---- topology ----
	if len(bm.Links) != len(bm.Internal_inputs) {
		add("topology:links-len", fmt.Sprintf("len(Links)=%d len(Internal_inputs)=%d", len(bm.Links), len(bm.Internal_inputs)))
	}
	for i, l := range bm.Links {
		if l < -1 || l >= len(bm.Internal_outputs) {
			add("topology:link-range", fmt.Sprintf("Links[%d]=%d with %d internal outputs", i, l, len(bm.Internal_outputs)))
		}
	}
	if len(bm.Shared_links) != len(bm.Processors) {
		add("topology:shared-links-len", fmt.Sprintf("%d shared link lists for %d processors", len(bm.Shared_links), len(bm.Processors)))
	}
	wantIn, wantOut := bm.Outputs, bm.Inputs
	for p, d := range bm.Processors {
		if d < 0 || d >= len(bm.Domains) {
			add("topology:domain-range", fmt.Sprintf("processor %d has domain %d of %d", p, d, len(bm.Domains)))
			continue
		}
		wantIn += int(bm.Domains[d].N)
		wantOut += int(bm.Domains[d].M)
	}
	if wantIn != len(bm.Internal_inputs) || wantOut != len(bm.Internal_outputs) {
		add("topology:endpoint-count", fmt.Sprintf("internal inputs %d (expected %d), internal outputs %d (expected %d)", len(bm.Internal_inputs), wantIn, len(bm.Internal_outputs), wantOut))
	}
	seen := map[string]bool{}
	for _, e := range append(bm.List_internal_inputs(), bm.List_internal_outputs()...) {
		if seen[e] {
			add("topology:duplicate-endpoint", e)
		}
		seen[e] = true
	}
	// ---- per domain ----
	for di, m := range bm.Domains {
		pre := fmt.Sprintf("domain %d: ", di)
		if m.Rsize != bm.Rsize {
			add("rsize-mismatch", pre+fmt.Sprintf("domain register size %d, machine %d", m.Rsize, bm.Rsize))
		}
		if m.R == 0 {
			add("register-bits-out-of-range", pre+fmt.Sprintf("R=%d", m.R))
		}
		names := []string{}
		for _, op := range m.Op {
			if op == nil {
				add("opcode-nil", pre+"nil opcode in the list")
				continue
			}
			names = append(names, op.Op_get_name())
		}
		if !sort.StringsAreSorted(names) {
			add("opcodes-unsorted", pre+strings.Join(names, ","))
		}
		for i := 1; i < len(names); i++ {
			if names[i] == names[i-1] {
				add("opcodes-duplicate", pre+names[i])
			}
		}
		if len(m.Slocs) > 1<<m.O {
			add("rom-too-small", pre+fmt.Sprintf("%d instructions in a ROM of 2^%d", len(m.Slocs), m.O))
		}
		if len(m.Op) == 0 {
			if len(m.Slocs) > 0 {
				add("no-opcodes", pre+"program without opcodes")
			}
			continue
		}
		w := m.Arch.Max_word()
		opbits := m.Opcodes_bits()
		for li, word := range m.Slocs {
			loc := pre + fmt.Sprintf("instruction %d (%s): ", li, word)
			if len(word) != w {
				add("word-width", loc+fmt.Sprintf("%d bits, architecture word is %d", len(word), w))
				continue
			}
			if strings.Trim(word, "01") != "" {
				add("word-not-binary", loc)
				continue
			}
			opi, _ := strconv.ParseUint(word[:opbits], 2, 64)
			if opbits > 0 && int(opi) >= len(m.Op) {
				add("opcode-index-out-of-range", loc+fmt.Sprintf("opcode field %d with %d opcodes", opi, len(m.Op)))
				continue
			}
			op := m.Op[opi]
			var dis string
			var derr error
			func() {
				defer func() {
					if p := recover(); p != nil {
						derr = fmt.Errorf("panic: %v", p)
					}
				}()
				dis, derr = op.Disassembler(&m.Arch, word[opbits:])
			}()
			if derr != nil {
				add("undecodable", loc+derr.Error())
				continue
			}
			toks := strings.Fields(strings.ToLower(dis))
			for ti, t := range toks {
				var idx int
				switch {
				case len(t) > 1 && t[0] == 'r' && isNum(t[1:]):
					idx, _ = strconv.Atoi(t[1:])
					if idx >= 1<<m.R {
						add("register-out-of-range", loc+fmt.Sprintf("%s %s with 2^%d registers", op.Op_get_name(), dis, m.R))
					}
				case len(t) > 1 && t[0] == 'i' && isNum(t[1:]):
					idx, _ = strconv.Atoi(t[1:])
					if idx >= int(m.N) {
						add("input-out-of-range", loc+fmt.Sprintf("%s %s with %d inputs", op.Op_get_name(), dis, m.N))
					}
				case len(t) > 1 && t[0] == 'o' && isNum(t[1:]):
					idx, _ = strconv.Atoi(t[1:])
					if idx >= int(m.M) {
						add("output-out-of-range", loc+fmt.Sprintf("%s %s with %d outputs", op.Op_get_name(), dis, m.M))
					}
				case isNum(t):
					if jt, ok := jumpTarget[op.Op_get_name()]; ok && jt == ti {
						v, _ := strconv.Atoi(t)
						if v >= len(m.Slocs) {
							add("jump-target-beyond-program", loc+fmt.Sprintf("%s %s jumps to %d, program has %d instructions", op.Op_get_name(), dis, v, len(m.Slocs)))
						}
					}
				}
			}
			// the disassembler prints 64-bit immediates >= 2^63 as negative decimals (a recorded C03 finding about
			// the disassembler, not about the machine): read them back as the unsigned value they stand for
			for ti, t := range toks {
				if len(t) > 1 && t[0] == '-' && isNum(t[1:]) {
					if v, err := strconv.ParseInt(t, 10, 64); err == nil {
						toks[ti] = strconv.FormatUint(uint64(v), 10)
					}
				}
			}
			line := op.Op_get_name() + " " + strings.Join(toks, " ")
			var w2 string
			var aerr error
			func() {
				defer func() {
					if p := recover(); p != nil {
						aerr = fmt.Errorf("panic: %v", p)
					}
				}()
				w2, aerr = m.Arch.Assembler_process_line([]byte(line))
			}()
			if aerr != nil || w2 != word {
				add("word-not-reproducible", loc+fmt.Sprintf("disassembles to `%s`, which assembles to %q (%v)", line, w2, aerr))
			}
		}
		if msg, ok := func() (msg string, ok bool) {
			defer func() {
				if p := recover(); p != nil {
					msg, ok = fmt.Sprint("panic: ", p), false
				}
			}()
			return (&procbuilder.Machine{Arch: m.Arch, Program: m.Program, Data: m.Data}).ConstraintCheck()
		}(); !ok {
			add("constraint-check", pre+msg)
		}
	}
	return
}

func isNum(s string) bool {
	if s == "" {
		return false
	}
	for _, c := range s {
		if c < '0' || c > '9' {
			return false
		}
	}
	return true
}
