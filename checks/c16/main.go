// C16 — every machine a front end emits is well formed.
//
// Exhaustive boundary sweep (no sampling) of sources aimed at the power-of-two boundaries of the
// architecture-inference arithmetic (register / input / output indices, program lengths, immediates,
// number of variables, neurons, qubits) through the four real front ends (basm in process; bondgo,
// neuralbond, bmqsim as binaries built from /repo's working tree); every emitted machine is checked
// by an independent validator (wf.go); sources whose operands cannot fit must be rejected.
package main

import (
	"encoding/json"
	"fmt"
	"os"
	"os/exec"
	"path/filepath"
	"runtime"
	"sort"
	"strings"
	"sync"
	"time"

	"verif/lib/vlib"

	"github.com/BondMachineHQ/BondMachine/pkg/bondmachine"
)

type source struct {
	FrontEnd   string   `json:"front_end"`
	Class      string   `json:"class"` // which boundary is probed (goes into signatures)
	Text       string   `json:"text"`
	Args       []string `json:"args,omitempty"`
	MustReject bool     `json:"must_reject"` // an operand cannot fit by the tool's own arithmetic
	// immediate ROM / RAM addresses the source mentions: if a machine is emitted, each must be representable in
	// the address width the tool itself chose for that machine (O resp. L of processor 0)
	RomAddrs []int `json:"rom_addrs,omitempty"`
	RamAddrs []int `json:"ram_addrs,omitempty"`
	// what the source declares at the machine boundary: number of BM inputs, BM outputs and bonds (0,0,0 = not stated)
	WantIO [3]int `json:"want_io,omitempty"`
}

func basmProgram(rsize int, lines []string, ins, outs []int) string {
	var sb strings.Builder
	sb.WriteString("%section prog .romtext iomode:async\n\tentry _start\n_start:\n")
	for _, l := range lines {
		sb.WriteString("\t" + l + "\n")
	}
	sb.WriteString("%endsection\n\n%meta cpdef p0 romcode: prog, ramsize:8\n")
	for _, i := range ins {
		fmt.Fprintf(&sb, "%%meta ioatt lin%d cp: p0, index:%d, type:input\n%%meta ioatt lin%d cp: bm, index:%d, type:input\n", i, i, i, i)
	}
	for _, o := range outs {
		fmt.Fprintf(&sb, "%%meta ioatt lout%d cp: p0, index:%d, type:output\n%%meta ioatt lout%d cp: bm, index:%d, type:output\n", o, o, o, o)
	}
	fmt.Fprintf(&sb, "%%meta bmdef global registersize:%d\n", rsize)
	return sb.String()
}

func basmSweep(thorough bool) []source {
	var out []source
	rsizes := []int{8, 16}
	if thorough {
		rsizes = []int{8, 16, 32, 64}
	}
	idx := []int{0, 1, 2, 3, 4, 7, 8, 15, 16, 31, 32, 127, 128, 255}
	lens := []int{1, 2, 3, 4, 5, 8, 9, 16, 17, 32, 33, 64, 65}
	for _, rs := range rsizes {
		for _, r := range idx {
			out = append(out, source{"basm", "register-index", basmProgram(rs, []string{fmt.Sprintf("inc r%d", r), "j _start"}, nil, nil), nil, false, nil, nil, [3]int{}})
			out = append(out, source{"basm", "register-index", basmProgram(rs, []string{fmt.Sprintf("rset r%d, 1", r), fmt.Sprintf("cpy r0, r%d", r), "r2o r0, o0", "j _start"}, nil, []int{0}), nil, false, nil, nil, [3]int{}})
		}
		out = append(out, source{"basm", "register-index", basmProgram(rs, []string{"inc r256", "j _start"}, nil, nil), nil, false, nil, nil, [3]int{}})
		for _, k := range idx {
			if k > 32 {
				continue
			}
			out = append(out, source{"basm", "input-index", basmProgram(rs, []string{fmt.Sprintf("i2r r0, i%d", k), "j _start"}, []int{k}, nil), nil, false, nil, nil, [3]int{}})
			out = append(out, source{"basm", "output-index", basmProgram(rs, []string{fmt.Sprintf("r2o r0, o%d", k), "j _start"}, nil, []int{k}), nil, false, nil, nil, [3]int{}})
			// all ports up to k attached
			var all []int
			for j := 0; j <= k; j++ {
				all = append(all, j)
			}
			out = append(out, source{"basm", "input-index", basmProgram(rs, []string{fmt.Sprintf("i2r r0, i%d", k), "j _start"}, all, nil), nil, false, nil, nil, [3]int{}})
			out = append(out, source{"basm", "output-index", basmProgram(rs, []string{fmt.Sprintf("r2o r0, o%d", k), "j _start"}, nil, all), nil, false, nil, nil, [3]int{}})
		}
		for _, l := range lens {
			var lines []string
			for i := 0; i < l-1; i++ {
				lines = append(lines, "inc r0")
			}
			lines = append(lines, "j _start")
			out = append(out, source{"basm", "program-length", basmProgram(rs, lines, nil, nil), nil, false, nil, nil, [3]int{}})
			// jump to a label on the last instruction
			lines2 := append([]string{}, lines[:len(lines)-1]...)
			lines2 = append(lines2, "jz r0, last")
			lines2 = append(lines2, "last:\n\tj last")
			out = append(out, source{"basm", "program-length", basmProgram(rs, lines2, nil, nil), nil, false, nil, nil, [3]int{}})
		}
		one := new(strings.Builder)
		_ = one
		max := "255"
		over := []string{"256", "257", "511", "65536"}
		switch rs {
		case 16:
			max, over = "65535", []string{"65536", "65537", "4294967296"}
		case 32:
			max, over = "4294967295", []string{"4294967296", "4294967297"}
		case 64:
			max, over = "18446744073709551615", nil
		}
		for _, v := range []string{"0", "1", "2", max, "0x0f", "0b101"} {
			out = append(out, source{"basm", "immediate", basmProgram(rs, []string{"rset r0, " + v, "r2o r0, o0", "j _start"}, nil, []int{0}), nil, false, nil, nil, [3]int{}})
			out = append(out, source{"basm", "immediate", basmProgram(rs, []string{"mov r0, " + v, "r2o r0, o0", "j _start"}, nil, []int{0}), nil, false, nil, nil, [3]int{}})
		}
		for _, v := range over {
			out = append(out, source{"basm", "immediate-wider-than-register", basmProgram(rs, []string{"rset r0, " + v, "r2o r0, o0", "j _start"}, nil, []int{0}), nil, true, nil, nil, [3]int{}})
			out = append(out, source{"basm", "immediate-wider-than-register", basmProgram(rs, []string{"mov r0, " + v, "r2o r0, o0", "j _start"}, nil, []int{0}), nil, true, nil, nil, [3]int{}})
		}
		// ROM data sections: code length × number of data cells around the powers of two (the ROM depth is
		// inferred from code + data); one variable with k values and the `k:db` repetition form
		for _, c := range []int{2, 3, 6, 7, 14, 15, 30, 36} {
			for _, k := range []int{1, 2, 3, 4, 8, 16, 40} {
				lines := []string{"rset r0, 1"} // the word must be at least 8 bits wide to hold data
				for i := 0; i < c-2; i++ {
					lines = append(lines, "inc r0")
				}
				lines = append(lines, "j _start")
				vals := make([]string, k)
				for i := range vals {
					vals[i] = fmt.Sprintf("0x%02x", (i*7+1)&0x7f)
				}
				for _, decl := range []string{"tab db " + strings.Join(vals, ", "), fmt.Sprintf("big %d:db 0x7f", k)} {
					src := basmProgram(rs, lines, nil, nil)
					src = strings.Replace(src, "%meta cpdef p0 romcode: prog, ramsize:8", "%section consts .romdata\n\t"+decl+"\n%endsection\n\n%meta cpdef p0 romcode: prog, romdata: consts", 1)
					out = append(out, source{"basm", "code-length×rom-data-cells", src, nil, false, nil, nil, [3]int{}})
				}
			}
		}
		// the same with programs whose widest instruction is the jump (the word width then follows the ROM depth)
		for _, c := range []int{30, 36, 60, 100} {
			for _, k := range []int{2, 8, 40, 70, 130} {
				var lines []string
				for i := 0; i < c-1; i++ {
					lines = append(lines, "inc r0")
				}
				lines = append(lines, "j _start")
				for _, decl := range []string{fmt.Sprintf("big %d:db 0x7f", k), fmt.Sprintf("one db 0x01\n\tbig %d:db 0x7f", k)} {
					src := basmProgram(rs, lines, nil, nil)
					src = strings.Replace(src, "%meta cpdef p0 romcode: prog, ramsize:8", "%section consts .romdata\n\t"+decl+"\n%endsection\n\n%meta cpdef p0 romcode: prog, romdata: consts", 1)
					out = append(out, source{"basm", "jump-widest×rom-data-cells", src, nil, false, nil, nil, [3]int{}})
				}
			}
		}
		// code in RAM as well as in ROM (execmode hy / vn): the processor's opcode set is the union of what the two
		// code sections use; the sections share all / some / none of their opcodes, lengths around the powers of two
		romBodies := [][]string{{"inc r0", "j _start"}, {"rset r0, 5", "add r0, r1", "r2o r0, o0", "j _start"}}
		ramBodies := [][]string{{"inc r2", "dec r2"}, {"inc r2", "add r2, r0", "j _rs"}, {"inc r0", "j _rs"}, {"rset r3, 1", "cpy r1, r3", "j _rs"}}
		for ri, rb := range romBodies {
			for _, mb := range ramBodies {
				for _, pad := range []int{0, 1, 5, 13} {
					for _, mode := range []string{"hy", "vn"} {
						var ram []string
						for i := 0; i < pad; i++ {
							ram = append(ram, "inc r2")
						}
						ram = append(ram, mb...)
						var outs []int
						if ri == 1 {
							outs = []int{0}
						}
						src := basmProgram(rs, rb, nil, outs)
						src = strings.Replace(src, "%meta cpdef p0 romcode: prog, ramsize:8",
							"%section rcode .ramtext iomode:async\n\tentry _rs\n_rs:\n\t"+strings.Join(ram, "\n\t")+"\n%endsection\n\n%meta cpdef p0 romcode: prog, ramcode: rcode, execmode: "+mode, 1)
						out = append(out, source{"basm", "rom-code+ram-code", src, nil, false, nil, nil, [3]int{}})
					}
				}
			}
		}
		// the machine boundary: a CP on i0/o0 plus k pass-through links (BM input straight to BM output), the two
		// endpoints of every link in both statement orders, pass-through indices below and above the CP's
		for k := 0; k <= 2; k++ {
			for order := 0; order < 2; order++ {
				for _, cpLast := range []bool{false, true} {
					if k == 0 && (order == 1 || cpLast) {
						continue
					}
					src := basmProgram(rs, []string{"i2r r0, i0", "r2o r0, o0", "j _start"}, nil, nil)
					cpIdx := 0
					first := 1
					if cpLast {
						cpIdx, first = k, 0
					}
					var metas []string
					metas = append(metas, fmt.Sprintf("%%meta ioatt cin cp: p0, index:0, type:input\n%%meta ioatt cin cp: bm, index:%d, type:input", cpIdx))
					metas = append(metas, fmt.Sprintf("%%meta ioatt cout cp: p0, index:0, type:output\n%%meta ioatt cout cp: bm, index:%d, type:output", cpIdx))
					for t := 0; t < k; t++ {
						a := fmt.Sprintf("%%meta ioatt pt%d cp: bm, index:%d, type:input", t, first+t)
						b := fmt.Sprintf("%%meta ioatt pt%d cp: bm, index:%d, type:output", t, first+t)
						if order == 1 {
							a, b = b, a
						}
						metas = append(metas, a, b)
					}
					src = strings.Replace(src, "%meta bmdef global", strings.Join(metas, "\n")+"\n%meta bmdef global", 1)
					out = append(out, source{FrontEnd: "basm", Class: "machine-boundary", Text: src, WantIO: [3]int{1 + k, 1 + k, 2 + k}})
				}
			}
		}
		// immediate ROM / RAM addresses at and beyond the memory the tool sizes from the program itself, in programs
		// with and without a wider instruction (rset) whose slack could absorb an over-wide address field
		for _, c := range []int{3, 4, 6, 8, 14} {
			for _, k := range []int{1, 3, 4, 7, 8, 9, 15, 16, 17, 31, 32, 64, 255, 256} {
				for _, wide := range []bool{false, true} {
					var lines []string
					if wide {
						lines = append(lines, "rset r0, 1")
					} else {
						lines = append(lines, "inc r0")
					}
					lines = append(lines, fmt.Sprintf("mov r1, rom:%d", k))
					for len(lines) < c-1 {
						lines = append(lines, "inc r0")
					}
					lines = append(lines, "j _start")
					out = append(out, source{FrontEnd: "basm", Class: "rom-address", Text: basmProgram(rs, lines, nil, nil), RomAddrs: []int{k}})
					lines[1] = fmt.Sprintf("mov r1, ram:%d", k)
					out = append(out, source{FrontEnd: "basm", Class: "ram-address", Text: basmProgram(rs, lines, nil, nil), RamAddrs: []int{k}})
				}
			}
		}
		// register × length combined at the boundaries
		for _, r := range []int{1, 2, 3, 4, 15, 16} {
			for _, l := range []int{3, 4, 5, 8, 9} {
				var lines []string
				for i := 0; i < l-1; i++ {
					lines = append(lines, fmt.Sprintf("inc r%d", r))
				}
				lines = append(lines, "j _start")
				out = append(out, source{"basm", "register-index×program-length", basmProgram(rs, lines, nil, nil), nil, false, nil, nil, [3]int{}})
			}
		}
	}
	return out
}

func bondgoSweep(thorough bool) []source {
	var out []source
	ns := []int{1, 2, 3, 4, 5, 8, 9}
	if thorough {
		ns = []int{1, 2, 3, 4, 5, 7, 8, 9, 15, 16, 17}
	}
	for _, rs := range []int{8, 16} {
		for _, n := range ns {
			var sb strings.Builder
			sb.WriteString("package main\n\nimport (\n\t\"bondgo\"\n)\n\nfunc main() {\n\tvar out0 bondgo.Output\n")
			ty := fmt.Sprintf("uint%d", rs)
			for i := 0; i < n; i++ {
				fmt.Fprintf(&sb, "\tvar v%d %s\n", i, ty)
			}
			sb.WriteString("\tout0 = bondgo.Make(bondgo.Output, 3)\n")
			for i := 0; i < n; i++ {
				fmt.Fprintf(&sb, "\tv%d = %d\n", i, i+1)
			}
			for i := 1; i < n; i++ {
				fmt.Fprintf(&sb, "\tv0 = v0 + v%d\n", i)
			}
			sb.WriteString("\tbondgo.IOWrite(out0, v0)\n}\n")
			out = append(out, source{"bondgo", "variable-count", sb.String(), []string{"-register-size", fmt.Sprint(rs)}, false, nil, nil, [3]int{}})
			// register-resident variables
			t := strings.ReplaceAll(sb.String(), "v", "reg_v")
			t = strings.ReplaceAll(t, "reg_var", "var")
			out = append(out, source{"bondgo", "register-variable-count", t, []string{"-register-size", fmt.Sprint(rs)}, false, nil, nil, [3]int{}})
		}
	}
	// variable types: n memory variables of which the k-th is a bool (every k: the bool is the first, an inner or
	// the last cell of the RAM, the count sweeps across the powers of two)
	for _, rs := range []int{8, 16} {
		for _, n := range ns {
			if n > 9 {
				continue
			}
			for k := 0; k < n; k++ {
				for _, resident := range []string{"", "reg_"} {
					if resident != "" && !(thorough || k == n-1) {
						continue
					}
					var sb strings.Builder
					sb.WriteString("package main\n\nimport (\n\t\"bondgo\"\n)\n\nfunc main() {\n\tvar out0 bondgo.Output\n")
					ty := fmt.Sprintf("uint%d", rs)
					acc := -1
					for i := 0; i < n; i++ {
						if i == k {
							fmt.Fprintf(&sb, "\tvar %sv%d bool\n", resident, i)
						} else {
							fmt.Fprintf(&sb, "\tvar v%d %s\n", i, ty)
							if acc < 0 {
								acc = i
							}
						}
					}
					sb.WriteString("\tout0 = bondgo.Make(bondgo.Output, 3)\n")
					for i := 0; i < n; i++ {
						if i == k {
							fmt.Fprintf(&sb, "\t%sv%d = true\n", resident, i)
						} else {
							fmt.Fprintf(&sb, "\tv%d = %d\n", i, i+1)
						}
					}
					for i := 0; i < n; i++ {
						if i != k && i != acc {
							fmt.Fprintf(&sb, "\tv%d = v%d + v%d\n", acc, acc, i)
						}
					}
					if acc >= 0 {
						fmt.Fprintf(&sb, "\tbondgo.IOWrite(out0, v%d)\n", acc)
					}
					sb.WriteString("}\n")
					out = append(out, source{"bondgo", "variable-types", sb.String(), []string{"-register-size", fmt.Sprint(rs)}, false, nil, nil, [3]int{}})
				}
			}
		}
	}
	return out
}

type nnNode struct {
	Layer, Pos int
	Type       string
	Bias       float32
	Inputs     int
	Outputs    int
}

func neuralSweep(thorough bool) []source {
	// derive nets from the repository's own small example by trimming / widening layers
	b, err := os.ReadFile("/repo/cmd/neuralbond/net-testsmall.json")
	if err != nil {
		return nil
	}
	out := []source{{"neuralbond", "example-net", string(b), nil, false, nil, nil, [3]int{}}, {"neuralbond", "example-net", string(b), []string{"-chooser-min-word-size"}, false, nil, nil, [3]int{}}}
	if b2, err := os.ReadFile("/repo/cmd/neuralbond/net-testnormal.json"); err == nil && thorough {
		out = append(out, source{"neuralbond", "example-net", string(b2), nil, false, nil, nil, [3]int{}})
	}
	var net map[string]any
	if json.Unmarshal(b, &net) != nil {
		return out
	}
	// fully connected nets inputs=n, hidden=h (linear), outputs=o built in the example's schema
	sizes := [][3]int{{1, 1, 1}, {2, 1, 1}, {2, 2, 1}, {3, 2, 2}}
	if thorough {
		sizes = append(sizes, [3]int{4, 3, 2}, [3]int{5, 4, 3}, [3]int{8, 2, 1}, [3]int{9, 2, 1})
	}
	for _, sz := range sizes {
		var nodes []map[string]any
		var weights []map[string]any
		layers := []int{sz[0], sz[1], sz[2], sz[2]}
		types := []string{"input", "linear", "linear", "output"}
		for l, cnt := range layers {
			for p := 0; p < cnt; p++ {
				nodes = append(nodes, map[string]any{"Layer": l, "Pos": p, "Type": types[l], "Bias": 0.5})
			}
		}
		for l := 1; l < len(layers); l++ {
			if l == len(layers)-1 {
				for p := 0; p < layers[l]; p++ {
					weights = append(weights, map[string]any{"Layer": l, "PosCurrLayer": p, "PosPrevLayer": p, "Value": 1.0})
				}
				continue
			}
			for p := 0; p < layers[l]; p++ {
				for q := 0; q < layers[l-1]; q++ {
					weights = append(weights, map[string]any{"Layer": l, "PosCurrLayer": p, "PosPrevLayer": q, "Value": 0.25})
				}
			}
		}
		jb, _ := json.Marshal(map[string]any{"Nodes": nodes, "Weights": weights})
		out = append(out, source{"neuralbond", "layer-width", string(jb), nil, false, nil, nil, [3]int{}})
		out = append(out, source{"neuralbond", "layer-width", string(jb), []string{"-chooser-min-word-size"}, false, nil, nil, [3]int{}})
		// pruned nets: every non-empty subset of the fan-in of the first hidden neuron (holes in the set of previous-
		// layer positions feeding a neuron), the other neurons fully connected
		if sz[0] >= 3 && sz[0] <= 4 {
			for mask := 1; mask < 1<<sz[0]-1; mask++ {
				var pruned []map[string]any
				for _, w := range weights {
					if w["Layer"].(int) == 1 && w["PosCurrLayer"].(int) == 0 && mask>>w["PosPrevLayer"].(int)&1 == 0 {
						continue
					}
					pruned = append(pruned, w)
				}
				jb, _ := json.Marshal(map[string]any{"Nodes": nodes, "Weights": pruned})
				out = append(out, source{"neuralbond", "pruned-fan-in", string(jb), nil, false, nil, nil, [3]int{}})
			}
		}
	}
	return out
}

func quantumSweep(thorough bool) []source {
	var out []source
	maxq := 3
	if thorough {
		maxq = 4
	}
	for n := 1; n <= maxq; n++ {
		var qs []string
		for i := 0; i < n; i++ {
			qs = append(qs, fmt.Sprintf("q%d", i))
		}
		for _, flavor := range []string{"seq_hardcoded_real", "seq_hardcoded_complex"} {
			var sb strings.Builder
			sb.WriteString("%block code1 .sequential\n")
			fmt.Fprintf(&sb, "\tqbits\t%s\n\tzero\t%s\n\th\tq0\n", strings.Join(qs, ", "), strings.Join(qs, ", "))
			if n > 1 {
				fmt.Fprintf(&sb, "\tcx\tq0, q%d\n", n-1)
			}
			sb.WriteString("%endblock\n\n%meta bmdef global main:code1\n")
			out = append(out, source{"bmqsim", "qubit-count", sb.String(), []string{"-hw-flavor", flavor}, false, nil, nil, [3]int{}})
		}
	}
	return out
}

// ---- running the front ends --------------------------------------------------------------------

var scratch, binDir string

// runBasm runs the real basm binary in a fresh process (the opcode registry is process-global:
// dynamic opcodes created while assembling one source would change how the next one is matched).
func runBasmInProcess(text string, args []string) (bm *bondmachine.Bondmachine, rejected string, panicked string) {
	parts := strings.Split(text, "\n%%%FILE%%%\n")
	files := map[string]string{}
	cmdArgs := append([]string{}, args...)
	cmdArgs = append(cmdArgs, "-o", "out.json")
	for i, p := range parts {
		n := fmt.Sprintf("f%03d.basm", i)
		files[n] = p
		cmdArgs = append(cmdArgs, n)
	}
	b, log, err := runBinary("basm", cmdArgs, files, "out.json", false)
	if err != nil {
		if strings.Contains(log, "panic:") || strings.Contains(log, "goroutine ") {
			return nil, "", lastPanicLine(log)
		}
		return nil, "rejected: " + lastLine(log), ""
	}
	m, lerr := loadBM(b)
	if lerr != nil {
		return nil, "", "emitted JSON cannot be loaded: " + lerr.Error()
	}
	return m, "", ""
}

func lastPanicLine(log string) string {
	for _, l := range strings.Split(log, "\n") {
		if strings.HasPrefix(l, "panic:") {
			return strings.TrimSpace(l)
		}
	}
	return lastLine(log)
}

var seq int
var seqMu sync.Mutex

func runBinary(tool string, args []string, files map[string]string, outFile string, retry bool) (out []byte, log string, err error) {
	seqMu.Lock()
	seq++
	dir := filepath.Join(scratch, "run", fmt.Sprint(seq))
	seqMu.Unlock()
	os.MkdirAll(dir, 0o755)
	defer os.RemoveAll(dir)
	for n, t := range files {
		os.WriteFile(filepath.Join(dir, n), []byte(t), 0o644)
	}
	attempts := 1
	if retry {
		attempts = 40
	}
	for a := 0; a < attempts; a++ {
		// an attempt that was killed may have created (and not finished) the output file: never read a leftover
		os.Remove(filepath.Join(dir, outFile))
		cmd := exec.Command(filepath.Join(binDir, tool), args...)
		cmd.Dir = dir
		done := make(chan struct{})
		var co []byte
		var cerr error
		go func() { co, cerr = cmd.CombinedOutput(); close(done) }()
		to := 10 * time.Minute
		if retry {
			to = 5 * time.Second
		}
		killed := false
		select {
		case <-done:
		case <-time.After(to):
			killed = true
			if cmd.Process != nil {
				cmd.Process.Kill()
			}
			<-done
		}
		if killed || (cerr != nil && strings.Contains(cerr.Error(), "signal: killed")) {
			if retry {
				continue
			}
			return nil, "", fmt.Errorf("timeout")
		}
		b, rerr := os.ReadFile(filepath.Join(dir, outFile))
		if rerr != nil {
			return nil, string(co), fmt.Errorf("no output (%v)", cerr)
		}
		return b, string(co), nil
	}
	return nil, "", fmt.Errorf("hung on every attempt")
}

func loadBM(b []byte) (*bondmachine.Bondmachine, error) {
	bj := new(bondmachine.Bondmachine_json)
	if err := json.Unmarshal(b, bj); err != nil {
		return nil, err
	}
	var bm *bondmachine.Bondmachine
	var perr error
	func() {
		defer func() {
			if p := recover(); p != nil {
				perr = fmt.Errorf("panic while loading: %v", p)
			}
		}()
		bm = bj.Dejsoner()
	}()
	return bm, perr
}

func libText() string {
	libs, _ := filepath.Glob("/repo/library/neurons/*.basm")
	sort.Strings(libs)
	var parts []string
	for _, l := range libs {
		b, _ := os.ReadFile(l)
		parts = append(parts, string(b))
	}
	return strings.Join(parts, "\n%%%FILE%%%\n")
}

type verdict struct {
	src      source
	accepted bool
	fails    []wfFail
	note     string
}

func evaluate(s source) verdict {
	v := verdict{src: s}
	var bm *bondmachine.Bondmachine
	switch s.FrontEnd {
	case "basm":
		m, rej, pan := runBasmInProcess(s.Text, s.Args)
		if pan != "" {
			v.fails = append(v.fails, wfFail{"front-end-panic", pan})
			return v
		}
		if rej != "" {
			v.note = rej
			return v
		}
		bm = m
	case "bondgo":
		args := append([]string{"-input-file", "p.go", "-mpm", "-save-bondmachine", "out.json"}, s.Args...)
		b, log, err := runBinary("bondgo", args, map[string]string{"p.go": s.Text}, "out.json", true)
		if err != nil {
			v.note = "rejected: " + err.Error() + " " + lastLine(log)
			return v
		}
		m, lerr := loadBM(b)
		if lerr != nil {
			v.fails = append(v.fails, wfFail{"emitted-json-unloadable", lerr.Error()})
			return v
		}
		bm = m
		// every source of this sweep has statements: a processor emitted with an EMPTY ROM means the tool could not
		// place the program on the machine it sized (its assembler error is only printed) and emitted the machine
		// anyway, instead of rejecting the source
		for d, dom := range m.Domains {
			if dom != nil && len(dom.Program.Slocs) == 0 {
				v.accepted = true
				v.fails = append(v.fails, wfFail{"emitted-without-its-program", fmt.Sprintf("processor %d has an empty ROM (R=%d L=%d O=%d); tool output: %s", d, dom.R, dom.L, dom.O, lastLine(log))})
				return v
			}
		}
	case "neuralbond":
		cfg := "{\"DataType\":\"float32\",\"Params\":{\"expprec\":\"10\"}}\n"
		b, log, err := runBinary("neuralbond", []string{"-net-file", "net.json", "-config-file", "cfg.json", "-neuron-lib-path", "/repo/library/neurons", "-save-basm", "nn.basm"},
			map[string]string{"net.json": s.Text, "cfg.json": cfg}, "nn.basm", false)
		if err != nil {
			v.note = "rejected: " + err.Error() + " " + lastLine(log)
			return v
		}
		flags := s.Args
		if len(flags) == 0 {
			flags = []string{"-disable-dynamical-matching"}
		}
		m, rej, pan := runBasmInProcess(string(b)+"\n%%%FILE%%%\n"+libText(), flags)
		if pan != "" {
			v.fails = append(v.fails, wfFail{"front-end-panic", "basm on neuralbond output: " + pan})
			return v
		}
		if rej != "" {
			v.note = "basm rejected the generated net: " + rej
			return v
		}
		bm = m
	case "bmqsim":
		args := append([]string{"-build-matrix-seq-hardcoded", "-save-basm", "q.basm"}, s.Args...)
		args = append(args, "p.bmq")
		b, log, err := runBinary("bmqsim", args, map[string]string{"p.bmq": s.Text}, "q.basm", false)
		if err != nil {
			v.note = "rejected: " + err.Error() + " " + lastLine(log)
			return v
		}
		m, rej, pan := runBasmInProcess(string(b), []string{"-chooser-min-word-size"})
		if pan != "" {
			v.fails = append(v.fails, wfFail{"front-end-panic", "basm on bmqsim output: " + pan})
			return v
		}
		if rej != "" {
			v.note = "basm rejected the generated circuit: " + rej
			return v
		}
		bm = m
	}
	v.accepted = true
	v.fails = wf(bm)
	if bm != nil && len(bm.Domains) > 0 && bm.Domains[0] != nil {
		for _, a := range s.RomAddrs {
			if a >= 1<<bm.Domains[0].O {
				v.fails = append(v.fails, wfFail{"address-beyond-the-memory-accepted", fmt.Sprintf("the source reads ROM cell %d, the emitted machine has %d ROM cells (O=%d)", a, 1<<bm.Domains[0].O, bm.Domains[0].O)})
			}
		}
		for _, a := range s.RamAddrs {
			if a >= 1<<bm.Domains[0].L {
				v.fails = append(v.fails, wfFail{"address-beyond-the-memory-accepted", fmt.Sprintf("the source accesses RAM cell %d, the emitted machine has %d RAM cells (L=%d)", a, 1<<bm.Domains[0].L, bm.Domains[0].L)})
			}
		}
	}
	if s.FrontEnd == "neuralbond" && bm != nil && netFullyLinked(s.Text) {
		// the generator creates exactly the ports its links need: a processor input nobody drives or a processor
		// output nobody reads means a link of the net was lost on the way
		driven := map[int]bool{}
		for i, l := range bm.Links {
			if l >= 0 {
				driven[l] = true
			} else if i < len(bm.Internal_inputs) && bm.Internal_inputs[i].Map_to == bondmachine.CPINPUT {
				v.fails = append(v.fails, wfFail{"dangling-endpoint", "processor input " + bm.Internal_inputs[i].String() + " is not driven by anything"})
			}
		}
		for o, e := range bm.Internal_outputs {
			if e.Map_to == bondmachine.CPOUTPUT && !driven[o] {
				v.fails = append(v.fails, wfFail{"dangling-endpoint", "processor output " + e.String() + " drives nothing"})
			}
		}
	}
	if s.WantIO != [3]int{} && bm != nil {
		if got := [3]int{bm.Inputs, bm.Outputs, bm.EnumBonds()}; got != s.WantIO {
			v.fails = append(v.fails, wfFail{"bond-graph-differs-from-source", fmt.Sprintf("the source declares %d BM inputs, %d BM outputs and %d bonds; the emitted machine has %d, %d and %d", s.WantIO[0], s.WantIO[1], s.WantIO[2], got[0], got[1], got[2])})
		}
	}
	if s.MustReject {
		v.fails = append(v.fails, wfFail{"unfittable-source-accepted", "the source mentions an operand that cannot fit (" + s.Class + ") but a machine was emitted"})
	}
	return v
}

// netFullyLinked: every node of the net that is not an input has a weight coming in and every node that is not an
// output has one going out. Only then does the source itself promise that every port of the emitted machine is
// connected (the example net-testnormal.json has no weights into its output layer: its machine mirrors that).
func netFullyLinked(text string) bool {
	var net struct {
		Nodes []struct {
			Layer, Pos int
			Type       string
		}
		Weights []struct{ Layer, PosCurrLayer, PosPrevLayer int }
	}
	if json.Unmarshal([]byte(text), &net) != nil {
		return false
	}
	in, out := map[[2]int]bool{}, map[[2]int]bool{}
	for _, w := range net.Weights {
		in[[2]int{w.Layer, w.PosCurrLayer}] = true
		out[[2]int{w.Layer - 1, w.PosPrevLayer}] = true
	}
	for _, n := range net.Nodes {
		k := [2]int{n.Layer, n.Pos}
		if n.Type != "input" && !in[k] {
			return false
		}
		if n.Type != "output" && !out[k] {
			return false
		}
	}
	return true
}

func lastLine(s string) string {
	l := strings.Split(strings.TrimSpace(s), "\n")
	return strings.TrimSpace(l[len(l)-1])
}

func main() {
	run := vlib.Start("C16", "exploration")
	vlib.SilenceStdout()
	var cleanup func()
	scratch, cleanup = vlib.Scratch("c16")
	defer cleanup()
	binDir = filepath.Join(scratch, "bin")
	os.MkdirAll(binDir, 0o755)
	if run.Replay != "" {
		var s source
		if _, err := vlib.LoadReplay(run.Replay, &s); err != nil {
			panic(err)
		}
		build(run)
		v := evaluate(s)
		fmt.Printf("front end %s class %s accepted=%v note=%s\n", s.FrontEnd, s.Class, v.accepted, v.note)
		for _, f := range v.fails {
			fmt.Printf("  %s: %s\n", f.class, f.detail)
		}
		cleanup()
		return
	}
	build(run)
	var srcs []source
	srcs = append(srcs, basmSweep(run.Thorough())...)
	srcs = append(srcs, bondgoSweep(run.Thorough())...)
	srcs = append(srcs, neuralSweep(run.Thorough())...)
	srcs = append(srcs, quantumSweep(run.Thorough())...)
	verdicts := make([]verdict, len(srcs))
	var wg sync.WaitGroup
	ch := make(chan int)
	for w := 0; w < runtime.NumCPU(); w++ {
		wg.Add(1)
		go func() {
			defer wg.Done()
			for i := range ch {
				verdicts[i] = evaluate(srcs[i])
			}
		}()
	}
	for i := range srcs {
		ch <- i
	}
	close(ch)
	wg.Wait()
	per := map[string]map[string]int{}
	distinct := map[string]bool{}
	rejectedWellFormed := map[string][]string{}
	for _, v := range verdicts {
		k := v.src.FrontEnd
		if per[k] == nil {
			per[k] = map[string]int{}
		}
		per[k]["sources"]++
		if v.accepted {
			per[k]["accepted"]++
		} else if len(v.fails) == 0 {
			per[k]["rejected"]++
			if !v.src.MustReject {
				rejectedWellFormed[k+"|"+v.src.Class] = append(rejectedWellFormed[k+"|"+v.src.Class], v.note)
			}
		}
		seen := map[string]bool{}
		for _, f := range v.fails {
			if seen[f.class] {
				continue
			}
			seen[f.class] = true
			run.Report("C16|"+v.src.FrontEnd+"|"+v.src.Class+"|"+f.class, f.detail, v.src)
		}
		if v.accepted && len(v.fails) == 0 {
			distinct[v.src.FrontEnd+"|"+v.src.Class+"|"+fmt.Sprint(len(v.src.Text))] = true
			if len(distinct)%40 == 1 {
				run.Sample(map[string]string{"front_end": v.src.FrontEnd, "class": v.src.Class, "source": v.src.Text})
			}
		}
	}
	run.Set("evaluations", len(srcs))
	run.Set("distinct_nontrivial", len(distinct))
	run.Set("per_front_end", per)
	rw := map[string]any{}
	for k, notes := range rejectedWellFormed {
		rw[k] = map[string]any{"count": len(notes), "example": notes[0]}
	}
	run.Set("rejected_sources_not_marked_unfittable", rw)
	run.Set("rule", "boundary sweep: sources probing register/input/output indices, program lengths, immediates (basm), variable counts (bondgo), layer widths (neuralbond), qubit counts (bmqsim) at and around powers of two; distinct_nontrivial = distinct accepted sources whose machine passed the independent validator")
	run.Set("exhaustive", true)
	run.Assume("a rejection is never judged (only counted); an accepted source marked unfittable, or an accepted machine failing the validator, is a violation")
	run.Assume("bondgo runs that hang (C12's known deadlock) are retried")
	cleanup()
	run.Finish()
}

func build(run *vlib.Run) {
	args := []string{"build"}
	if ov := os.Getenv("VERIF_OVERLAY"); ov != "" {
		args = append(args, "-overlay", ov)
	}
	args = append(args, "-o", binDir+"/", "./cmd/basm", "./cmd/bondgo", "./cmd/neuralbond", "./cmd/bmqsim")
	cmd := exec.Command("go", args...)
	cmd.Dir = "/repo"
	if out, err := cmd.CombinedOutput(); err != nil {
		fmt.Fprintf(os.Stderr, "C16: tool build failed: %v\n%s\n", err, out)
		os.Exit(2)
	}
}
