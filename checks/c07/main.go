// C07 — every build step is a function of its inputs.
//
// The real tools (basm, bondgo, neuralbond, bmqsim, bondmachine -create-verilog) are built from
// /repo's working tree with the mapctl runtime overlay, which makes the start point of every
// range-over-map and every map hash seed a function of the environment (default: start 0, seed 0),
// so a process is a deterministic function of (input, policy). Exploration is deviation-bounded and
// exhaustive per bound: baseline = no deviation (run twice, must be identical), then EVERY single
// deviation: each range site seen in the baseline × each start rotation, and each alternative hash
// seed; thorough adds per-event deviations and pairs of sites. Any output byte that differs from
// the baseline is a dependence on map iteration order, i.e. a way two ordinary runs can differ.
package main

import (
	"bytes"
	"crypto/sha256"
	"encoding/json"
	"fmt"
	"os"
	"os/exec"
	"path/filepath"
	"sort"
	"strconv"
	"strings"
	"sync"
	"time"

	"verif/lib/vlib"
)

type toolCase struct {
	Name    string   `json:"name"`
	Tool    string   `json:"tool"`
	Args    []string `json:"args"`    // {in:<file>} {lib} placeholders are expanded
	Inputs  []string `json:"inputs"`  // files copied into the run directory (from corpus dir or earlier outputs)
	Outputs []string `json:"outputs"` // files (or globs) whose bytes are the artefact
	Retry   bool     `json:"retry"`   // tool may hang (bondgo's known deadlock, C12): retry with a timeout
}

type policy struct {
	PC   string `json:"pc,omitempty"`
	Ev   int    `json:"ev,omitempty"`
	Rot  int    `json:"rot,omitempty"`
	PC2  string `json:"pc2,omitempty"`
	Rot2 int    `json:"rot2,omitempty"`
	Seed int    `json:"seed,omitempty"`
	// Clock: seconds added to the wall-clock instant every tool process starts at (baseClock; the overlay owns time.Now)
	Clock int64 `json:"clock,omitempty"`
}

// every tool process starts at this wall-clock instant (plus the policy's deviation), whatever the real time is
const baseClock = 1700000000

func (c toolCase) timeout() time.Duration {
	if c.Retry {
		return 5 * time.Second // bondgo finishes in milliseconds or hangs forever (C12's deadlock)
	}
	return 10 * time.Minute // never a verdict: a run that exceeds it is counted as inconclusive
}

func (p policy) env() string {
	var parts []string
	if p.PC != "" {
		parts = append(parts, fmt.Sprintf("pc=%s,ev=%d,rot=%d", p.PC, p.Ev, p.Rot))
	}
	if p.PC2 != "" {
		parts = append(parts, fmt.Sprintf("pc=%s,ev=0,rot=%d", p.PC2, p.Rot2))
	}
	if p.Seed != 0 {
		parts = append(parts, fmt.Sprintf("h=%d", p.Seed))
	}
	return strings.Join(parts, ";")
}

type site struct {
	PC     string
	Events int // capped at 8 by the runtime log
	B      int // log2 buckets of the largest map seen there
	Count  int // entries of the largest map seen there
}

var scratch, binDir, corpusDir string

func must(err error) {
	if err != nil {
		fmt.Fprintln(os.Stderr, "C07 harness error:", err)
		os.Exit(2)
	}
}

func sh(dir string, env []string, name string, args ...string) (string, error) {
	cmd := exec.Command(name, args...)
	cmd.Dir = dir
	cmd.Env = append(os.Environ(), env...)
	out, err := cmd.CombinedOutput()
	return string(out), err
}

func buildTools() {
	ovDir := filepath.Join(scratch, "ov")
	out, err := sh("/verif", nil, "python3", "/verif/engines/mapctl/gen.py", ovDir)
	if err != nil {
		must(fmt.Errorf("mapctl gen: %v %s", err, out))
	}
	ovPath := filepath.Join(ovDir, "overlay.json")
	if extra := os.Getenv("VERIF_OVERLAY"); extra != "" {
		var a, b struct{ Replace map[string]string }
		x, _ := os.ReadFile(ovPath)
		json.Unmarshal(x, &a)
		y, err := os.ReadFile(extra)
		must(err)
		must(json.Unmarshal(y, &b))
		for k, v := range b.Replace {
			a.Replace[k] = v
		}
		z, _ := json.Marshal(a)
		os.WriteFile(ovPath, z, 0o644)
	}
	os.MkdirAll(binDir, 0o755)
	out, err = sh("/repo", nil, "go", "build", "-overlay", ovPath, "-o", binDir+"/", "./cmd/basm", "./cmd/bondgo", "./cmd/neuralbond", "./cmd/bmqsim", "./cmd/bondmachine")
	if err != nil {
		must(fmt.Errorf("tool build failed: %v\n%s", err, out))
	}
}

type runResult struct {
	artefact []byte
	files    map[string][]byte
	sites    []site
	err      string
}

var runSeq int64
var seqMu sync.Mutex

var caseTime = map[string]time.Duration{}

func runCase(c toolCase, p policy, wantSites bool) (rr runResult) {
	t0 := time.Now()
	defer func() {
		seqMu.Lock()
		caseTime[c.Name] += time.Since(t0)
		seqMu.Unlock()
	}()
	seqMu.Lock()
	runSeq++
	id := runSeq
	seqMu.Unlock()
	dir := filepath.Join(scratch, "runs", strconv.FormatInt(id, 10))
	os.MkdirAll(dir, 0o755)
	defer os.RemoveAll(dir)
	for _, in := range c.Inputs {
		b, err := os.ReadFile(filepath.Join(corpusDir, in))
		if err != nil {
			return runResult{err: "missing input " + in}
		}
		os.WriteFile(filepath.Join(dir, filepath.Base(in)), b, 0o644)
	}
	var args []string
	for _, a := range c.Args {
		if a == "{lib}" {
			libs, _ := filepath.Glob("/repo/library/neurons/*.basm")
			sort.Strings(libs)
			args = append(args, libs...)
			continue
		}
		args = append(args, a)
	}
	attempts := 1
	if c.Retry {
		attempts = 40
	}
	var res runResult
	for a := 0; a < attempts; a++ {
		cmd := exec.Command(filepath.Join(binDir, c.Tool), args...)
		cmd.Dir = dir
		cmd.Env = append(os.Environ(), "VERIF_MAP="+p.env(), fmt.Sprintf("VERIF_CLOCK=%d", baseClock+p.Clock))
		var dump *os.File
		if wantSites {
			dump, _ = os.Create(filepath.Join(dir, ".mapdump"))
			cmd.ExtraFiles = []*os.File{dump}
			cmd.Env = append(cmd.Env, "VERIF_MAPDUMP=3")
		}
		var stdout bytes.Buffer
		cmd.Stdout = &stdout
		cmd.Stderr = &stdout
		must(cmd.Start())
		done := make(chan error, 1)
		go func() { done <- cmd.Wait() }()
		timedOut := false
		select {
		case <-done:
		case <-time.After(c.timeout()):
			cmd.Process.Kill()
			<-done
			timedOut = true
		}
		if dump != nil {
			dump.Close()
		}
		if timedOut {
			if c.Retry {
				continue
			}
			return runResult{err: "timeout"}
		}
		res.files = map[string][]byte{}
		var names []string
		for _, o := range c.Outputs {
			m, _ := filepath.Glob(filepath.Join(dir, o))
			names = append(names, m...)
		}
		sort.Strings(names)
		var art bytes.Buffer
		for _, n := range names {
			b, _ := os.ReadFile(n)
			res.files[filepath.Base(n)] = b
			fmt.Fprintf(&art, "== %s %d\n", filepath.Base(n), len(b))
			art.Write(b)
		}
		if len(names) == 0 {
			res.err = "no output produced: " + strings.TrimSpace(lastLines(stdout.String(), 3))
		}
		res.artefact = art.Bytes()
		if wantSites {
			res.sites = parseDump(filepath.Join(dir, ".mapdump"))
		}
		return res
	}
	return runResult{err: "tool hung on every attempt"}
}

func lastLines(s string, n int) string {
	l := strings.Split(strings.TrimSpace(s), "\n")
	if len(l) > n {
		l = l[len(l)-n:]
	}
	return strings.Join(l, " | ")
}

func parseDump(path string) []site {
	b, _ := os.ReadFile(path)
	m := map[string]*site{}
	var order []string
	for _, line := range strings.Split(string(b), "\n") {
		f := strings.Fields(line)
		if (len(f) != 4 && len(f) != 5) || f[0] != "S" {
			continue
		}
		n, _ := strconv.ParseInt(f[2], 16, 64)
		bb, _ := strconv.ParseInt(f[3], 16, 64)
		s, ok := m[f[1]]
		if !ok {
			s = &site{PC: f[1]}
			m[f[1]] = s
			order = append(order, f[1])
		}
		if int(n) > s.Events {
			s.Events = int(n)
		}
		if int(bb) > s.B {
			s.B = int(bb)
		}
		if len(f) == 5 {
			if cn, _ := strconv.ParseInt(f[4], 16, 64); int(cn) > s.Count {
				s.Count = int(cn)
			}
		}
	}
	var out []site
	for _, pc := range order {
		out = append(out, *m[pc])
	}
	return out
}

// symbolise return addresses through `go tool addr2line`
func symbolise(tool string, pcs []string) map[string]string {
	res := map[string]string{}
	if len(pcs) == 0 {
		return res
	}
	var in bytes.Buffer
	for _, pc := range pcs {
		v, _ := strconv.ParseUint(pc, 16, 64)
		fmt.Fprintf(&in, "%x\n", v-1)
	}
	cmd := exec.Command("go", "tool", "addr2line", filepath.Join(binDir, tool))
	cmd.Stdin = &in
	out, err := cmd.Output()
	if err != nil {
		return res
	}
	lines := strings.Split(strings.TrimSpace(string(out)), "\n")
	for i, pc := range pcs {
		if 2*i+1 < len(lines) {
			fn := lines[2*i]
			loc := lines[2*i+1]
			loc = strings.TrimPrefix(loc, "/repo/")
			res[pc] = fn + " (" + loc + ")"
		}
	}
	return res
}

func firstDiff(a, b map[string][]byte) string {
	var names []string
	for n := range a {
		names = append(names, n)
	}
	for n := range b {
		if _, ok := a[n]; !ok {
			names = append(names, n)
		}
	}
	sort.Strings(names)
	for _, n := range names {
		x, ok1 := a[n]
		y, ok2 := b[n]
		if !ok1 || !ok2 {
			return n + " present in only one run"
		}
		if !bytes.Equal(x, y) {
			i := 0
			for i < len(x) && i < len(y) && x[i] == y[i] {
				i++
			}
			lo := i - 30
			if lo < 0 {
				lo = 0
			}
			hx, hy := i+30, i+30
			if hx > len(x) {
				hx = len(x)
			}
			if hy > len(y) {
				hy = len(y)
			}
			return fmt.Sprintf("%s differs at byte %d: baseline …%q… vs …%q…", n, i, x[lo:hx], y[lo:hy])
		}
	}
	return "artefact sets differ"
}

func funcOnly(sym string) string {
	if i := strings.Index(sym, " ("); i >= 0 {
		sym = sym[:i]
	}
	sym = strings.TrimPrefix(sym, "github.com/BondMachineHQ/BondMachine/")
	return sym
}

func writeCorpus() {
	os.MkdirAll(corpusDir, 0o755)
	files := map[string]string{
		"a.basm":         "%section prog .romtext iomode:async\n\tentry _start\n_start:\n\trset r0, 5\nloop:\n\tinc r0\n\tr2o r0, o0\n\tj loop\n%endsection\n\n%meta cpdef p0 romcode: prog, ramsize:8\n%meta ioatt l1 cp: p0, index:0, type:output\n%meta ioatt l1 cp: bm, index:0, type:output\n%meta bmdef global registersize:8\n",
		"lit.basm":       "%section prog .romtext iomode:async\n\tentry _start\n_start:\n\trset r0, 0u100\n\trset r1, 0x10\n\tadd r0, r1\n\tr2o r0, o0\n\tj _start\n%endsection\n\n%meta cpdef p0 romcode: prog, ramsize:8\n%meta ioatt l1 cp: p0, index:0, type:output\n%meta ioatt l1 cp: bm, index:0, type:output\n%meta bmdef global registersize:8\n",
		"two.basm":       "%section prod .romtext iomode:sync\n\tentry _start\n_start:\n\tclr r0\nloop:\n\tinc r0\n\tr2owa r0, o0\n\tj loop\n%endsection\n%section cons .romtext iomode:sync\n\tentry _start\n_start:\n\ti2rw r0, i0\n\tr2owa r0, o0\n\tj _start\n%endsection\n\n%meta cpdef p0 romcode: prod, ramsize:8\n%meta cpdef p1 romcode: cons, ramsize:8\n%meta ioatt l1 cp: p0, index:0, type:output\n%meta ioatt l1 cp: p1, index:0, type:input\n%meta ioatt l2 cp: p1, index:0, type:output\n%meta ioatt l2 cp: bm, index:0, type:output\n%meta bmdef global registersize:8\n",
		"frag.basm":      "%fragment inc1 resin:r0 resout:r0\n\tinc r0\n%endfragment\n%fragment sum resin:r0:r1 resout:r0\n\tadd r0, r1\n%endfragment\n\n%meta fidef f1 fragment:inc1\n%meta fidef f2 fragment:inc1\n%meta fidef f3 fragment:sum\n%meta filinkdef la type:fl\n%meta filinkdef lb type:fl\n%meta filinkdef lc type:fl\n%meta filinkdef ld type:fl\n%meta filinkdef le type:fl\n%meta filinkatt la fi:ext, type:input, index:0\n%meta filinkatt la fi:f1, type:input, index:0\n%meta filinkatt lb fi:ext, type:input, index:1\n%meta filinkatt lb fi:f2, type:input, index:0\n%meta filinkatt lc fi:f1, type:output, index:0\n%meta filinkatt lc fi:f3, type:input, index:0\n%meta filinkatt ld fi:f2, type:output, index:0\n%meta filinkatt ld fi:f3, type:input, index:1\n%meta filinkatt le fi:f3, type:output, index:0\n%meta filinkatt le fi:ext, type:output, index:0\n%meta cpdef cpa fragcollapse:f1:f2:f3\n%meta bmdef global registersize:8\n",
		"romram.basm":    "%section boot .romtext iomode:async\n\tentry _start\n_start:\n\trset r0, 7\n\tr2o r0, o0\n\tj _start\n%endsection\n\n%section work .ramtext iomode:async\n\tentry _w\n_w:\n\trset r0, 1\n\trset r1, 2\n\trset r2, 3\n\trset r3, 4\n\trset r4, 5\n\trset r5, 6\n\tadd r4, r5\n\tadd r0, r1\n\tr2o r0, o0\n\tj _w\n%endsection\n\n%meta cpdef cpu romcode: boot, ramcode: work\n%meta ioatt lo cp:cpu, index:0, type:output\n%meta ioatt lo cp:bm, index:0, type:output\n%meta bmdef global registersize:8\n",
		"data.basm":      "%section code .romtext iomode:async\n\tentry _start\n_start:\n\trset r0, 1\n\tinc r0\n\tr2o r0, o0\n\tj _start\n%endsection\n\n%section consts .romdata\n\ttab db 0x01, 0x02, 0x03, 0x04, 0x05\n\tone db 0x2a\n%endsection\n\n%meta cpdef cpu romcode: code, romdata: consts\n%meta ioatt lo cp:cpu, index:0, type:output\n%meta ioatt lo cp:bm, index:0, type:output\n%meta bmdef global registersize:8\n",
		"movs.basm":      "%section code .romtext iomode:async\n\tentry _start\n_start:\n\tmov r0, 3\n\tmov r1, 200\n\tmov r2, r0\n\tadd r2, r1\n\tmov o0, r2\n\tj _start\n%endsection\n\n%meta cpdef cpu romcode: code\n%meta ioatt lo cp:cpu, index:0, type:output\n%meta ioatt lo cp:bm, index:0, type:output\n%meta bmdef global registersize:8\n",
		"tfrag.basm":     "%meta bmdef global registersize:8\n%fragment addk\n\trset r1, {{.Params.k}}\n\tadd r0, r1\n%endfragment\n%section alpha .romtext k:3\n\tentry _start\n_start:\n\ti2r r0, i0\n\tcall8s addk\n\tr2o r0, o0\n\tj _start\n%endsection\n%section beta .romtext k:5\n\tentry _start\n_start:\n\ti2r r0, i0\n\tcall8s addk\n\tr2o r0, o0\n\tj _start\n%endsection\n%section gamma .romtext k:9\n\tentry _start\n_start:\n\ti2r r0, i0\n\tcall8s addk\n\tr2o r0, o0\n\tj _start\n%endsection\n%meta cpdef cpa romcode:alpha\n%meta cpdef cpb romcode:beta\n%meta cpdef cpc romcode:gamma\n%meta ioatt l0 cp:bm, type:input, index:0\n%meta ioatt l0 cp:cpa, type:input, index:0\n%meta ioatt l1 cp:cpa, type:output, index:0\n%meta ioatt l1 cp:cpb, type:input, index:0\n%meta ioatt l2 cp:cpb, type:output, index:0\n%meta ioatt l2 cp:cpc, type:input, index:0\n%meta ioatt l3 cp:cpc, type:output, index:0\n%meta ioatt l3 cp:bm, type:output, index:0\n",
		"chooser1.basm":  "%meta bmdef global registersize:8\n%section sa .romtext iomode:async\n\tentry _start\n_start:\n\trsets6 r0, 3\n\tr2o r0, o0\n\tj _start\n%endsection\n%section sb .romtext iomode:async\n\tentry _start\n_start:\n\tmov r1, 5\n\tmov r0, r1\n\tr2o r0, o0\n\tj _start\n%endsection\n%meta cpdef cpa romcode:sa\n%meta cpdef cpb romcode:sb\n%meta ioatt oa cp:cpa, type:output, index:0\n%meta ioatt oa cp:bm, type:output, index:0\n%meta ioatt ob cp:cpb, type:output, index:0\n%meta ioatt ob cp:bm, type:output, index:1\n",
		"chooser2.basm":  "%meta bmdef global registersize:8\n%section sa .romtext iomode:async\n\tentry _start\n_start:\n\trsets6 r0, 3\n\tr2o r0, o0\n\tj _start\n%endsection\n%section sb .romtext iomode:async\n\tentry _start\n_start:\n\trset r2, 200\n\tmov r1, 5\n\tmov r0, r1\n\tr2o r0, o0\n\tj _start\n%endsection\n%meta cpdef cpa romcode:sa\n%meta cpdef cpb romcode:sb\n%meta ioatt oa cp:cpa, type:output, index:0\n%meta ioatt oa cp:bm, type:output, index:0\n%meta ioatt ob cp:cpb, type:output, index:0\n%meta ioatt ob cp:bm, type:output, index:1\n",
		"twoblocks.bmq":  "%meta bmdef global registersize:32\n\n%block pair .sequential\n        qbits   q0, q1\n        zero    q0, q1\n\th\tq0\n        cx      q0, q1\n%endblock\n\n%block triple .sequential\n        qbits   q0, q1, q2\n        zero    q0, q1, q2\n\th\tq0\n        cx      q0, q1\n        cx      q1, q2\n%endblock\n\n%meta bmdef global main:pair\n",
		"immaddr.basm":   "%meta bmdef global registersize:8\n%section code .romtext iomode:async\n\tentry _start\n_start:\n\tmov r0, rom:2\n\tmov r1, ram:1\n\tmov r2, i0\n\tadd r0, r2\n\tmov o0, r0\n\tj _start\n%endsection\n%meta cpdef cpu romcode: code, ramsize:8\n%meta ioatt li cp:cpu, index:0, type:input\n%meta ioatt li cp:bm, index:0, type:input\n%meta ioatt lo cp:cpu, index:0, type:output\n%meta ioatt lo cp:bm, index:0, type:output\n",
		"multidata.basm": "%meta bmdef global registersize:8\n%section codea .romtext iomode:async\n\tentry _start\n_start:\n\tmov r0, rom:a1\n\tmov r1, rom:a2\n\tr2o r0, o0\n\tj _start\n%endsection\n%section dataa .romdata\n\ta0 db 0x01, 0x02\n\ta1 db 0x03\n\ta2 db 0x04, 0x05, 0x06\n%endsection\n%section codeb .romtext iomode:async\n\tentry _start\n_start:\n\tmov r1, rom:b1\n\tr2o r1, o0\n\tj _start\n%endsection\n%section datab .romdata\n\tb0 db 0x0a, 0x0b, 0x0c\n\tb1 db 0x0d\n%endsection\n%section codec .romtext iomode:async\n\tentry _start\n_start:\n\tmov r2, rom:c0\n\tr2o r2, o0\n\tj _start\n%endsection\n%section datac .romdata\n\tc0 db 0x11\n%endsection\n%meta cpdef cpa romcode:codea, romdata:dataa\n%meta cpdef cpb romcode:codeb, romdata:datab\n%meta cpdef cpc romcode:codec, romdata:datac\n%meta ioatt oa cp:cpa, type:output, index:0\n%meta ioatt oa cp:bm, type:output, index:0\n%meta ioatt ob cp:cpb, type:output, index:0\n%meta ioatt ob cp:bm, type:output, index:1\n%meta ioatt oc cp:cpc, type:output, index:0\n%meta ioatt oc cp:bm, type:output, index:2\n",
		"helper.basm":    "%meta bmdef global registersize:8\n%meta cpdef cpa romcode:mul\n%meta cpdef cpb romcode:plain\n\n%section mul .romtext\n\tentry _start\n_start:\n\trset r0, 3\n\trset r1, 5\n\tmultp r0, r1\n\taddp r0, r1\n\tj _start\n%endsection\n\n%section plain .romtext\n\tentry _start\n_start:\n\trset r0, 3\n\tmultp r0, r0\n\tinc r0\n\tj _start\n%endsection\n",
		"t.go":           "package main\n\nimport (\n\t\"bondgo\"\n)\n\nfunc main() {\n\tvar out0 bondgo.Output\n\tvar a uint8\n\tvar b uint8\n\tout0 = bondgo.Make(bondgo.Output, 3)\n\ta = 1\n\tb = 2\n\ta = a + b\n\tbondgo.IOWrite(out0, a)\n}\n",
		"cfg.json":       "{\"DataType\":\"float32\",\"Params\":{\"expprec\":\"10\"}}\n",
		"sb.json":        "{\"Rules\":[]}\n",
		"map.json":       "{\"Assoc\":{\"clk\":\"sysclk\",\"reset\":\"btnC\",\"i0\":\"sw0\",\"i1\":\"sw1\",\"i2\":\"sw2\",\"o0\":\"led0\",\"o1\":\"led1\",\"o2\":\"led2\"}}\n",
	}
	for n, t := range files {
		os.WriteFile(filepath.Join(corpusDir, n), []byte(t), 0o644)
	}
	for _, n := range []string{"net-testsmall.json", "net-testnormal.json"} {
		b, err := os.ReadFile("/repo/cmd/neuralbond/" + n)
		if err == nil {
			os.WriteFile(filepath.Join(corpusDir, n), b, 0o644)
		}
	}
	b, err := os.ReadFile("/repo/cmd/bmqsim/program.bmq")
	if err == nil {
		os.WriteFile(filepath.Join(corpusDir, "program.bmq"), b, 0o644)
	}
}

func main() {
	run := vlib.Start("C07", "exploration")
	var cleanup func()
	scratch, cleanup = vlib.Scratch("c07")
	defer cleanup()
	binDir = filepath.Join(scratch, "bin")
	corpusDir = filepath.Join(scratch, "corpus")
	finish := func() {
		cleanup()
		run.Finish()
	}
	writeCorpus()
	buildTools()

	cases := []toolCase{
		{Name: "basm:a", Tool: "basm", Args: []string{"-o", "out.json", "a.basm"}, Inputs: []string{"a.basm"}, Outputs: []string{"out.json"}},
		{Name: "basm:literals", Tool: "basm", Args: []string{"-o", "out.json", "lit.basm"}, Inputs: []string{"lit.basm"}, Outputs: []string{"out.json"}},
		{Name: "basm:two-cps", Tool: "basm", Args: []string{"-o", "out.json", "two.basm"}, Inputs: []string{"two.basm"}, Outputs: []string{"out.json"}},
		{Name: "basm:fragments", Tool: "basm", Args: []string{"-o", "out.json", "frag.basm"}, Inputs: []string{"frag.basm"}, Outputs: []string{"out.json"}},
		{Name: "basm:rom+ram-code", Tool: "basm", Args: []string{"-o", "out.json", "romram.basm"}, Inputs: []string{"romram.basm"}, Outputs: []string{"out.json"}},
		{Name: "basm:romdata", Tool: "basm", Args: []string{"-o", "out.json", "data.basm"}, Inputs: []string{"data.basm"}, Outputs: []string{"out.json"}},
		{Name: "basm:mov-chooser", Tool: "basm", Args: []string{"-chooser-min-word-size", "-o", "out.json", "movs.basm"}, Inputs: []string{"movs.basm"}, Outputs: []string{"out.json"}},
		{Name: "basm:templated-fragment", Tool: "basm", Args: []string{"-o", "out.json", "tfrag.basm"}, Inputs: []string{"tfrag.basm"}, Outputs: []string{"out.json"}},
		{Name: "basm:chooser-with-explicit-rsets-elsewhere", Tool: "basm", Args: []string{"-chooser-min-word-size", "-o", "out.json", "chooser1.basm"}, Inputs: []string{"chooser1.basm"}, Outputs: []string{"out.json"}},
		{Name: "basm:chooser-tie-on-word-size", Tool: "basm", Args: []string{"-chooser-min-word-size", "-o", "out.json", "chooser2.basm"}, Inputs: []string{"chooser2.basm"}, Outputs: []string{"out.json"}},
		{Name: "basm:immediate-rom-and-ram-addresses", Tool: "basm", Args: []string{"-o", "out.json", "immaddr.basm"}, Inputs: []string{"immaddr.basm"}, Outputs: []string{"out.json"}},
		{Name: "basm:several-data-sections", Tool: "basm", Args: []string{"-o", "out.json", "multidata.basm"}, Inputs: []string{"multidata.basm"}, Outputs: []string{"out.json"}},
		{Name: "basm:helper-module-opcodes", Tool: "basm", Args: []string{"-o", "out.json", "helper.basm"}, Inputs: []string{"helper.basm"}, Outputs: []string{"out.json"}},
		{Name: "neuralbond:testsmall", Tool: "neuralbond", Args: []string{"-net-file", "net-testsmall.json", "-config-file", "cfg.json", "-neuron-lib-path", "/repo/library/neurons", "-save-basm", "nn.basm"}, Inputs: []string{"net-testsmall.json", "cfg.json"}, Outputs: []string{"nn.basm", "cfg.json"}},
		{Name: "neuralbond:testsmall-fragment", Tool: "neuralbond", Args: []string{"-net-file", "net-testsmall.json", "-config-file", "cfg.json", "-neuron-lib-path", "/repo/library/neurons", "-operating-mode", "fragment", "-save-basm", "nn.basm"}, Inputs: []string{"net-testsmall.json", "cfg.json"}, Outputs: []string{"nn.basm", "cfg.json"}},
		{Name: "bmqsim:bell", Tool: "bmqsim", Args: []string{"-build-matrix-seq-hardcoded", "-hw-flavor", "seq_hardcoded_real", "-save-basm", "q.basm", "program.bmq"}, Inputs: []string{"program.bmq"}, Outputs: []string{"q.basm"}},
		{Name: "bmqsim:two-blocks-global-meta-first", Tool: "bmqsim", Args: []string{"-build-matrix-seq-hardcoded", "-hw-flavor", "seq_hardcoded_real", "-save-basm", "q.basm", "twoblocks.bmq"}, Inputs: []string{"twoblocks.bmq"}, Outputs: []string{"q.basm"}},
		{Name: "bondgo:t", Tool: "bondgo", Args: []string{"-input-file", "t.go", "-save-assembly", "t.asm"}, Inputs: []string{"t.go"}, Outputs: []string{"t.asm"}, Retry: true},
	}
	// chained cases use the baseline output of an upstream tool as their (fixed) input
	chained := []struct {
		from, file string
		c          toolCase
	}{
		{"neuralbond:testsmall", "nn.basm", toolCase{Name: "basm:neural-net", Tool: "basm", Args: []string{"-disable-dynamical-matching", "-o", "out.json", "nn.basm", "{lib}"}, Inputs: []string{"nn.basm"}, Outputs: []string{"out.json"}}},
		{"bmqsim:bell", "q.basm", toolCase{Name: "basm:quantum", Tool: "basm", Args: []string{"-o", "out.json", "q.basm"}, Inputs: []string{"q.basm"}, Outputs: []string{"out.json"}}},
		{"basm:a", "out.json", toolCase{Name: "create-verilog:a", Tool: "bondmachine", Args: []string{"-bondmachine-file", "a.json", "-create-verilog", "-verilog-flavor", "iverilog", "-verilog-simulation", "-simbox-file", "sb.json"}, Inputs: []string{"a.json", "sb.json"}, Outputs: []string{"*.v"}}},
		{"basm:two-cps", "out.json", toolCase{Name: "create-verilog:two-cps", Tool: "bondmachine", Args: []string{"-bondmachine-file", "two.json", "-create-verilog", "-verilog-flavor", "iverilog", "-verilog-simulation", "-simbox-file", "sb.json"}, Inputs: []string{"two.json", "sb.json"}, Outputs: []string{"*.v"}}},
	}
	chained = append(chained, struct {
		from, file string
		c          toolCase
	}{"basm:helper-module-opcodes", "out.json", toolCase{Name: "create-verilog:helper-module-opcodes", Tool: "bondmachine", Args: []string{"-bondmachine-file", "helper.json", "-create-verilog", "-verilog-flavor", "iverilog", "-verilog-simulation", "-simbox-file", "sb.json"}, Inputs: []string{"helper.json", "sb.json"}, Outputs: []string{"*.v"}}})
	// generation options: the commented netlist and a board flavour (the board top level bondmachine_main.v is
	// written from the IO map file, a JSON object that becomes a Go map)
	for _, up := range []string{"a", "two-cps"} {
		in := map[string]string{"a": "a.json", "two-cps": "two.json"}[up]
		chained = append(chained, struct {
			from, file string
			c          toolCase
		}{"basm:" + up, "out.json", toolCase{Name: "create-verilog:" + up + "-commented", Tool: "bondmachine", Args: []string{"-bondmachine-file", in, "-create-verilog", "-verilog-flavor", "iverilog", "-comment-verilog"}, Inputs: []string{in}, Outputs: []string{"*.v"}}})
		chained = append(chained, struct {
			from, file string
			c          toolCase
		}{"basm:" + up, "out.json", toolCase{Name: "create-verilog:" + up + "-board-commented", Tool: "bondmachine", Args: []string{"-bondmachine-file", in, "-create-verilog", "-verilog-flavor", "basys3", "-verilog-mapfile", "map.json", "-comment-verilog"}, Inputs: []string{in, "map.json"}, Outputs: []string{"*.v"}}})
		chained = append(chained, struct {
			from, file string
			c          toolCase
		}{"basm:" + up, "out.json", toolCase{Name: "create-verilog:" + up + "-board", Tool: "bondmachine", Args: []string{"-bondmachine-file", in, "-create-verilog", "-verilog-flavor", "basys3", "-verilog-mapfile", "map.json"}, Inputs: []string{in, "map.json"}, Outputs: []string{"*.v"}}})
	}
	if run.Thorough() {
		cases = append(cases, toolCase{Name: "neuralbond:testnormal", Tool: "neuralbond", Args: []string{"-net-file", "net-testnormal.json", "-config-file", "cfg.json", "-neuron-lib-path", "/repo/library/neurons", "-save-basm", "nn.basm"}, Inputs: []string{"net-testnormal.json", "cfg.json"}, Outputs: []string{"nn.basm", "cfg.json"}})
	}

	type deviation struct {
		c toolCase
		p policy
	}
	type caseInfo struct {
		c            toolCase
		base         runResult
		sites        []site
		syms         map[string]string
		skipped      string
		baseFailed   bool
		devs         int
		differ       int
		inconclusive int
		distinct     map[string]bool
	}
	infos := map[string]*caseInfo{}
	var order []string
	prepare := func(c toolCase) {
		ci := &caseInfo{c: c, distinct: map[string]bool{}}
		infos[c.Name] = ci
		order = append(order, c.Name)
		b1 := runCase(c, policy{}, true)
		if strings.HasPrefix(b1.err, "no output produced") && len(b1.sites) > 0 {
			// the tool fails under the default policy: that is an outcome too. The deviations are still run, and one
			// under which the tool succeeds shows that success itself depends on the policy.
			ci.baseFailed = true
			ci.base = b1
			ci.sites = b1.sites
			var pcs []string
			for _, s := range ci.sites {
				pcs = append(pcs, s.PC)
			}
			ci.syms = symbolise(c.Tool, pcs)
			fmt.Fprintf(os.Stderr, "note: case %s fails under the default policy (%s); exploring whether another policy makes it succeed\n", c.Name, b1.err)
			return
		}
		if b1.err != "" {
			ci.skipped = b1.err
			return
		}
		b2 := runCase(c, policy{}, false)
		if b2.err != "" || !bytes.Equal(b1.artefact, b2.artefact) {
			// not a function of (input, policy): either another source of nondeterminism or a harness problem
			ci.skipped = "baseline not reproducible under a fixed map policy"
			if c.Retry {
				ci.skipped += " (tool with goroutines: schedule dependence is decided by C12)"
			} else {
				run.Report("C07|"+c.Tool+"|not-deterministic-under-fixed-map-order", fmt.Sprintf("[%s] two runs with the same map policy differ: %s", c.Name, firstDiff(b1.files, b2.files)), map[string]any{"case": c})
			}
			return
		}
		ci.base = b1
		ci.sites = b1.sites
		var pcs []string
		for _, s := range ci.sites {
			pcs = append(pcs, s.PC)
		}
		ci.syms = symbolise(c.Tool, pcs)
	}
	for _, c := range cases {
		prepare(c)
	}
	for _, ch := range chained {
		up := infos[ch.from]
		if up == nil || up.skipped != "" {
			continue
		}
		name := ch.c.Inputs[0]
		os.WriteFile(filepath.Join(corpusDir, name), up.base.files[ch.file], 0o644)
		prepare(ch.c)
	}
	// enumerate deviations
	var devs []deviation
	for _, n := range order {
		ci := infos[n]
		if ci.skipped != "" {
			fmt.Fprintf(os.Stderr, "note: case %s skipped: %s\n", n, ci.skipped)
			continue
		}
		for _, s := range ci.sites {
			var rots []int
			if s.B == 0 {
				// a single-bucket map with k entries has (at most) k distinct iteration orders: the rotations of its
				// slots. Quick starts it at every slot up to its entry count, thorough at every slot of the bucket.
				rots = nil
				for k := 1; k <= 7 && k <= s.Count; k++ {
					rots = append(rots, k)
				}
				if len(rots) == 0 {
					rots = []int{1}
				}
				if run.Thorough() {
					rots = []int{1, 2, 3, 4, 5, 6, 7}
				}
			} else {
				nb := 1 << s.B
				for k := 1; k < nb && k < 16; k++ {
					rots = append(rots, k) // every start bucket
				}
				rots = append(rots, nb) // bucket 0, next in-bucket offset
				if !run.Thorough() && (ci.c.Name == "basm:neural-net" || ci.c.Name == "basm:quantum") && nb > 2 {
					// the two generated programs take seconds per assembly: the quick tier starts every range site at
					// the next bucket, the middle one and the next in-bucket offset (thorough: every start bucket)
					rots = []int{1, nb / 2, nb}
				}
				if run.Thorough() {
					rots = append(rots, nb+1, 3*nb, 5*nb+1, 7*nb+nb-1)
				}
			}
			for _, r := range rots {
				devs = append(devs, deviation{ci.c, policy{PC: s.PC, Rot: r}})
			}
			if run.Thorough() && s.Events > 1 {
				for ev := 1; ev <= s.Events && ev <= 8; ev++ {
					devs = append(devs, deviation{ci.c, policy{PC: s.PC, Ev: ev, Rot: 1}})
				}
			}
		}
		seeds := []int{1}
		if run.Thorough() {
			seeds = []int{1, 2, 3}
		}
		for _, sd := range seeds {
			devs = append(devs, deviation{ci.c, policy{Seed: sd}})
		}
		// the clock: one second, one hour and a few years later
		clocks := []int64{1, 3600}
		if run.Thorough() {
			clocks = []int64{1, 59, 3600, 86400 * 365 * 3}
		}
		for _, ck := range clocks {
			devs = append(devs, deviation{ci.c, policy{Clock: ck}})
		}
	}
	type found struct {
		d    deviation
		diff string
	}
	var mu sync.Mutex
	var founds []found
	var wg sync.WaitGroup
	work := make(chan deviation)
	for w := 0; w < 16; w++ {
		wg.Add(1)
		go func() {
			defer wg.Done()
			for d := range work {
				ci := infos[d.c.Name]
				r := runCase(d.c, d.p, false)
				mu.Lock()
				ci.devs++
				run.Cov["evaluations"] = run.Get0("evaluations") + 1
				if r.err == "timeout" || r.err == "tool hung on every attempt" {
					ci.inconclusive++
				} else if ci.baseFailed {
					if r.err == "" {
						founds = append(founds, found{d, "the tool FAILS under the default policy (" + ci.base.err + ") and produces its output under this one"})
						ci.differ++
					}
				} else if r.err != "" {
					founds = append(founds, found{d, "tool failed under this map order: " + r.err})
					ci.differ++
				} else if !bytes.Equal(r.artefact, ci.base.artefact) {
					founds = append(founds, found{d, firstDiff(ci.base.files, r.files)})
					ci.differ++
				} else {
					h := sha256.Sum256([]byte(d.c.Name + "|" + d.p.PC))
					ci.distinct[string(h[:8])] = true
				}
				mu.Unlock()
			}
		}()
	}
	for _, d := range devs {
		work <- d
	}
	close(work)
	wg.Wait()
	// thorough: pairs of sites among the sites that already differ alone are subsumed; pairs among the rest
	// (two deviations) on the smallest cases
	if run.Thorough() {
		var pairs []deviation
		for _, n := range order {
			ci := infos[n]
			if ci.skipped != "" || len(ci.sites) > 40 {
				continue
			}
			bad := map[string]bool{}
			for _, f := range founds {
				if f.d.c.Name == n {
					bad[f.d.p.PC] = true
				}
			}
			for i, a := range ci.sites {
				for _, b := range ci.sites[i+1:] {
					if bad[a.PC] || bad[b.PC] {
						continue
					}
					pairs = append(pairs, deviation{ci.c, policy{PC: a.PC, Rot: 1, PC2: b.PC, Rot2: 1}})
				}
			}
		}
		work = make(chan deviation)
		for w := 0; w < 16; w++ {
			wg.Add(1)
			go func() {
				defer wg.Done()
				for d := range work {
					ci := infos[d.c.Name]
					r := runCase(d.c, d.p, false)
					mu.Lock()
					ci.devs++
					run.Cov["evaluations"] = run.Get0("evaluations") + 1
					if r.err == "" && !bytes.Equal(r.artefact, ci.base.artefact) {
						founds = append(founds, found{d, firstDiff(ci.base.files, r.files)})
						ci.differ++
					}
					mu.Unlock()
				}
			}()
		}
		for _, d := range pairs {
			work <- d
		}
		close(work)
		wg.Wait()
		run.Set("pair_deviations", len(pairs))
	}
	sort.Slice(founds, func(i, j int) bool {
		a, b := founds[i], founds[j]
		if a.d.c.Name != b.d.c.Name {
			return a.d.c.Name < b.d.c.Name
		}
		if a.d.p.PC != b.d.p.PC {
			return a.d.p.PC < b.d.p.PC
		}
		return a.d.p.Rot < b.d.p.Rot
	})
	for _, f := range founds {
		ci := infos[f.d.c.Name]
		where := "hash-seed"
		detail := fmt.Sprintf("map hash seed %d", f.d.p.Seed)
		if f.d.p.Clock != 0 {
			where = "wall-clock"
			detail = fmt.Sprintf("process started %d s later", f.d.p.Clock)
		}
		if f.d.p.PC != "" {
			sym := ci.syms[f.d.p.PC]
			where = funcOnly(sym)
			detail = fmt.Sprintf("range over a map at %s started at rotation %d", sym, f.d.p.Rot)
			if f.d.p.PC2 != "" {
				where += "+" + funcOnly(ci.syms[f.d.p.PC2])
				detail += " and at " + ci.syms[f.d.p.PC2]
			}
		}
		what := "map iteration order"
		if f.d.p.Clock != 0 {
			what = "the clock"
		}
		run.Report("C07|"+f.d.c.Tool+"|"+where, fmt.Sprintf("[%s] output depends on %s: %s: %s", f.d.c.Name, what, detail, f.diff),
			map[string]any{"case": f.d.c, "policy": f.d.p, "env": fmt.Sprintf("VERIF_MAP=%s VERIF_CLOCK=%d", f.d.p.env(), baseClock+f.d.p.Clock)})
	}
	var per []map[string]any
	nd := 0
	for _, n := range order {
		ci := infos[n]
		per = append(per, map[string]any{"case": n, "range_sites": len(ci.sites), "deviations_run": ci.devs, "deviations_changing_output": ci.differ, "inconclusive_runs": ci.inconclusive, "skipped": ci.skipped, "tool_seconds": caseTime[n].Seconds()})
		nd += len(ci.distinct)
		if ci.skipped == "" && len(ci.sites) > 0 {
			s := ci.sites[0]
			run.Sample(fmt.Sprintf("%s: VERIF_MAP=pc=%s,ev=0,rot=1 (%s)", n, s.PC, ci.syms[s.PC]))
		}
	}
	run.Set("cases", per)
	run.Set("distinct_nontrivial", nd)
	run.Set("rule", "one evaluation = one fresh process of a real tool under one policy (map order, hash seed, clock); distinct_nontrivial = distinct (case, range site) pairs whose deviation was executed and left the output unchanged; deviations that change the output are violations")
	run.Set("exhaustive", true)
	run.Set("bounds", "all single-site deviations (2 rotations quick / 7 thorough, per-event deviations and 3 seeds thorough), pairs of sites on small cases (thorough)")
	run.Assume("the wall clock is owned too: every tool process sees time.Now() start at a fixed instant (VERIF_CLOCK, patched time.Now in the overlay) and the deviations start it 1 s / 1 h / years later; math/rand seeded from the clock follows")
	run.Assume("map iteration start, hash seeds and the wall clock are the nondeterminism owned here; goroutine schedules of bondgo are decided by C12, and bondgo runs that hang (C12's known deadlock) are retried")
	run.Assume("every explored order is one a production run can produce: Go's iteration order is fully determined by (hash seed, start bucket, start offset)")
	finish()
}
