//go:build gosched

// C09 — "Simulation results do not depend on scheduling or on other simulations".
//
// Deciding engine: engines/gosched.  Every scenario of checks/c09/scen (real BondMachines, real
// simulator code: VM.Init, Launch_processors, Processor_execute, VM.Step, SinglePipelineSimulate)
// is executed under EVERY goroutine schedule with at most B preemptions (B per tier), sharded over
// 16 processes.  Oracles (no hand-written expectation anywhere):
//
//	(a) schedule independence: the tick-by-tick digest of the complete VM state and the string
//	    returned by VM.Step are the same in all schedules (one distinct observation);
//	(b) isolation: in machines whose processors are not connected, every processor's tick-by-tick
//	    state equals the one it has when simulated alone in a one-processor machine;
//	(c) concurrent simulations: what each of two concurrently running simulations produces is
//	    something the same simulation produces when run alone (set computed by exploring it alone).
//
// Supplementary, non-deciding: the same bodies free-running on the uninstrumented code built with
// -race (checks/c09/racepass), GOMAXPROCS 1,2,4,16; a data race reported inside /repo code is a
// violation of "no execution contains a data race".
//
// Built and run by checks/c09/run.sh (instrument -> overlay -> build -> run).
package main

import (
	"bytes"
	"encoding/json"
	"flag"
	"fmt"
	"os"
	"os/exec"
	"reflect"
	"regexp"
	"sort"
	"strconv"
	"strings"
	"sync"
	"time"

	"github.com/BondMachineHQ/BondMachine/pkg/procbuilder"
	gs "github.com/BondMachineHQ/BondMachine/pkg/zzgs"

	"verif/checks/c09/scen"
	"verif/lib/vlib"
)

var (
	fChild    = flag.Bool("child", false, "internal: explore one shard of one scenario and print the report as JSON")
	fScenario = flag.String("scenario", "", "only this scenario")
	fShard    = flag.String("shard", "", "internal: k/n")
	fShards   = flag.Int("shards", 16, "shard processes")
	fRaceBin  = flag.String("racebin", "", "path of the -race build of checks/c09/racepass (empty: skip the race pass)")
	fBound    = flag.Int("bound", -1, "override the preemption bound")
	fDeadline = flag.Duration("deadline", 0, "override the per scenario wall clock cap")
	fVerbose  = flag.Bool("v", false, "print every distinct outcome")
	fTicks    = flag.Int("ticks", 0, "override the number of ticks")
	fEndBy    = flag.Int64("endby", 0, "internal: unix time at which the exploration budget of the whole run ends")
)

// ------------------------------------------------------------- bodies

func spawnGS(fns ...func()) {
	var wg gs.WaitGroup
	wg.Add(len(fns))
	for i, f := range fns {
		f := f
		gs.Go("checks/c09/main.go:caller", fmt.Sprintf("caller%d", i), func() { f(); wg.Done() })
	}
	wg.Wait()
}

func observeAll(lines []string) {
	for _, l := range lines {
		gs.Observe(l)
	}
}

func scenarioBody(b *scen.Built) func() { return func() { observeAll(b.Run(spawnGS)) } }

// opYieldCalls counts the calls of the pre-Simulate hook (evidence that the hook is live).
var opYieldCalls int64

// setOpYield installs (or removes) the pre-Simulate hook added by gsprep -hook: with it every
// opcode execution is a scheduling point, so the explorer also orders the Simulate calls of
// different processors / simulations against each other.
func setOpYield(on bool) {
	if on {
		procbuilder.ZZPreSimulate = func() { opYieldCalls++; gs.Yield() }
	} else {
		procbuilder.ZZPreSimulate = nil
	}
}

func boundOf(sc scen.Scenario, thorough bool) int {
	if *fBound >= 0 {
		return *fBound
	}
	if thorough {
		return sc.Bound[1]
	}
	return sc.Bound[0]
}

// budgetOf is the wall clock budget of the whole exploration (all scenarios, all shards); shards
// that start late get what is left (at least 2 s).  Hitting it gives exhaustive=false, never an alarm.
func budgetOf(thorough bool) time.Duration {
	if *fDeadline > 0 {
		return *fDeadline
	}
	if thorough {
		return 14 * time.Minute
	}
	return 80 * time.Second
}

func deadlineOf(thorough bool) time.Duration {
	if *fEndBy > 0 {
		d := time.Until(time.Unix(*fEndBy, 0))
		if d < 2*time.Second {
			d = 2 * time.Second
		}
		return d
	}
	return budgetOf(thorough)
}

// ------------------------------------------------------------- child

func childMain(run *vlib.Run) {
	sc, ok := scen.ByName(*fScenario)
	if !ok {
		fmt.Fprintln(os.Stderr, "unknown scenario", *fScenario)
		os.Exit(2)
	}
	o := gs.Options{MaxPreemptions: boundOf(sc, run.Thorough()), Deadline: deadlineOf(run.Thorough())}
	if *fShard != "" {
		if _, err := fmt.Sscanf(*fShard, "%d/%d", &o.ShardK, &o.ShardN); err != nil {
			fmt.Fprintln(os.Stderr, "bad -shard")
			os.Exit(2)
		}
	}
	b := scen.Prepare(sc, run.Thorough())
	setOpYield(sc.OpYield)
	rep := gs.Explore(o, scenarioBody(b))
	if sc.OpYield && opYieldCalls == 0 {
		fmt.Fprintln(os.Stderr, "pre-Simulate hook never called (gsprep -hook failed?)")
		os.Exit(3)
	}
	json.NewEncoder(os.Stdout).Encode(rep)
}

// ------------------------------------------------------------- parent

type scenStat struct {
	Name             string  `json:"scenario"`
	Note             string  `json:"note"`
	Ticks            int     `json:"ticks"`
	Bound            int     `json:"preemption_bound"`
	BoundCompleted   int     `json:"bound_completed"`
	Exhaustive       bool    `json:"exhaustive_within_bound"`
	FullyExplored    bool    `json:"all_interleavings_covered"`
	CapHit           string  `json:"cap_hit,omitempty"`
	Schedules        int     `json:"schedules"`
	Executions       int     `json:"executions"`
	ChoicePoints     int64   `json:"choice_points_visited"`
	Transitions      int64   `json:"transitions_fired"`
	MaxPoints        int     `json:"max_choice_points_in_one_execution"`
	Outcomes         int     `json:"distinct_outcomes"`
	Deadlocks        int     `json:"deadlocks"`
	Panics           int     `json:"panics"`
	Nondeterministic int     `json:"nondeterministic_runs"`
	LeakedMin        int     `json:"leaked_goroutines_min"`
	LeakedMax        int     `json:"leaked_goroutines_max"`
	RefSchedules     int     `json:"reference_schedules"`
	WallS            float64 `json:"wall_s"`
}

type replayObj struct {
	Scenario string  `json:"scenario"`
	Tier     string  `json:"tier"`
	Kind     string  `json:"kind"` // schedule-pair | isolation | concurrent | deadlock | panic | race
	Choices  [][]int `json:"choices"`
	Detail   string  `json:"detail,omitempty"`
}

func runShards(self string, sc scen.Scenario, tier string, nshards int, sem chan struct{}, endBy int64) (gs.Report, error) {
	reps := make([]gs.Report, nshards)
	errs := make([]error, nshards)
	var wg sync.WaitGroup
	for k := 0; k < nshards; k++ {
		wg.Add(1)
		go func(k int) {
			defer wg.Done()
			sem <- struct{}{}
			defer func() { <-sem }()
			args := []string{"-child", "-tier", tier, "-scenario", sc.Name, "-shard", fmt.Sprintf("%d/%d", k, nshards)}
			if *fBound >= 0 {
				args = append(args, "-bound", strconv.Itoa(*fBound))
			}
			args = append(args, "-endby", strconv.FormatInt(endBy, 10))
			if *fTicks > 0 {
				args = append(args, "-ticks", strconv.Itoa(*fTicks))
			}
			cmd := exec.Command(self, args...)
			var out, eb bytes.Buffer
			cmd.Stdout, cmd.Stderr = &out, &eb
			if err := cmd.Run(); err != nil {
				errs[k] = fmt.Errorf("shard %d of %s: %v\n%s", k, sc.Name, err, tail(eb.String(), 2000))
				return
			}
			if err := json.Unmarshal(out.Bytes(), &reps[k]); err != nil {
				errs[k] = fmt.Errorf("shard %d of %s: bad JSON: %v", k, sc.Name, err)
			}
		}(k)
	}
	wg.Wait()
	for _, e := range errs {
		if e != nil {
			return gs.Report{}, e
		}
	}
	return gs.Merge(reps...), nil
}

func tail(s string, n int) string {
	if len(s) > n {
		return "..." + s[len(s)-n:]
	}
	return s
}

func short(s string, n int) string {
	if len(s) > n {
		return s[:n] + "..."
	}
	return s
}

// sortedOutcomes returns the distinct outcomes, minimal schedule first.
func sortedOutcomes(r gs.Report) []gs.Outcome {
	var os_ []gs.Outcome
	for _, o := range r.FirstOfEachOutcome {
		os_ = append(os_, o)
	}
	sort.Slice(os_, func(i, j int) bool {
		a, b := os_[i], os_[j]
		if a.Preemptions != b.Preemptions {
			return a.Preemptions < b.Preemptions
		}
		if len(a.Choices) != len(b.Choices) {
			return len(a.Choices) < len(b.Choices)
		}
		return fmt.Sprint(a.Choices) < fmt.Sprint(b.Choices)
	})
	return os_
}

// ------------------------------------------------------------- observation parsing

var lineRe = regexp.MustCompile(`^(?:sim(\d+) )?(?:t(\d+) ([SRE])|(SPS)) (.*)$`)

type obsLine struct {
	sim  int
	tick int
	kind string // S R E SPS
	text string
}

func parseObs(obs string) []obsLine {
	var out []obsLine
	for _, l := range strings.Split(obs, "\n") {
		m := lineRe.FindStringSubmatch(l)
		if m == nil {
			out = append(out, obsLine{kind: "?", text: l})
			continue
		}
		ol := obsLine{text: m[5]}
		if m[1] != "" {
			ol.sim, _ = strconv.Atoi(m[1])
		}
		if m[4] != "" {
			ol.kind = "SPS"
		} else {
			ol.tick, _ = strconv.Atoi(m[2])
			ol.kind = m[3]
		}
		out = append(out, ol)
	}
	return out
}

func procsOf(state string) []string {
	parts := strings.SplitN(state, " ;; ", 2)
	return strings.Split(parts[0], " ; ")
}

var pcRe = regexp.MustCompile(`^pc=(\d+) `)

func pcOf(procDigest string) uint64 {
	m := pcRe.FindStringSubmatch(procDigest)
	if m == nil {
		return 0
	}
	v, _ := strconv.ParseUint(m[1], 10, 64)
	return v
}

// projection returns the lines of simulation sim.
func projection(ls []obsLine, sim int) []obsLine {
	var out []obsLine
	for _, l := range ls {
		if l.sim == sim {
			out = append(out, l)
		}
	}
	return out
}

func renderLines(ls []obsLine) string {
	var sb strings.Builder
	for _, l := range ls {
		fmt.Fprintf(&sb, "t%d %s %s\n", l.tick, l.kind, l.text)
	}
	return sb.String()
}

// reportSections splits a VM.Step report (as %q text) into its per-processor sections.
func reportSections(q string) (head string, secs []string) {
	s, err := strconv.Unquote(q)
	if err != nil {
		s = q
	}
	idx := regexp.MustCompile(`(?m)^\tProc: \d+\n`).FindAllStringIndex(s, -1)
	if len(idx) == 0 {
		return s, nil
	}
	head = s[:idx[0][0]]
	for i, p := range idx {
		end := len(s)
		if i+1 < len(idx) {
			end = idx[i+1][0]
		}
		secs = append(secs, s[p[0]:end])
	}
	// text after the last processor section that belongs to the VM (Post-compute IO) stays attached
	// to the last section in both outcomes only if the order is the same; detach it
	if n := len(secs); n > 0 {
		last := secs[n-1]
		if i := strings.Index(last, "\tPost-compute IO:"); i >= 0 && !strings.HasPrefix(last[i:], "\t\t") {
			// a VM level line starts with exactly one tab
			lines := strings.SplitAfter(last, "\n")
			var keep, tailv []string
			for _, l := range lines {
				if strings.HasPrefix(l, "\tPost-compute IO:") {
					tailv = append(tailv, l)
				} else {
					keep = append(keep, l)
				}
			}
			secs[n-1] = strings.Join(keep, "")
			head += strings.Join(tailv, "")
		}
	}
	return head, secs
}

// classifyDiff compares two observations of the same scenario and names the failure class.
func classifyDiff(b *scen.Built, component string, a, c []obsLine) (sig, what string) {
	n := len(a)
	if len(c) < n {
		n = len(c)
	}
	for i := 0; i < n; i++ {
		x, y := a[i], c[i]
		if x == y {
			continue
		}
		if x.kind != y.kind || x.tick != y.tick || x.sim != y.sim {
			return "C09|" + component + "|trace-shape-depends-on-schedule", fmt.Sprintf("line %d: %q vs %q", i, short(x.text, 200), short(y.text, 200))
		}
		switch x.kind {
		case "S":
			px, py := procsOf(x.text), procsOf(y.text)
			for p := range px {
				if p < len(py) && px[p] != py[p] {
					// opcode executed by processor p in this tick: the one at its pc after the previous tick
					pc := uint64(0)
					for j := i - 1; j >= 0; j-- {
						if a[j].kind == "S" && a[j].sim == x.sim {
							pc = pcOf(procsOf(a[j].text)[p])
							break
						}
					}
					op := b.OpAt(x.sim, p, pc)
					return "C09|op:" + op + "|state-interference",
						fmt.Sprintf("tick %d processor %d (executing %s at pc %d): {%s} in one schedule, {%s} in another", x.tick, p, op, pc, px[p], py[p])
				}
			}
			return "C09|VM.Step|io-state-depends-on-schedule", fmt.Sprintf("tick %d: BM level state {%s} vs {%s}", x.tick, short(x.text, 300), short(y.text, 300))
		case "R":
			hx, sx := reportSections(x.text)
			hy, sy := reportSections(y.text)
			ssx, ssy := append([]string{}, sx...), append([]string{}, sy...)
			sort.Strings(ssx)
			sort.Strings(ssy)
			if hx == hy && reflect.DeepEqual(ssx, ssy) {
				return "C09|VM.Step|report-order-depends-on-schedule",
					fmt.Sprintf("tick %d: VM.Step returned %s in one schedule and %s in another (same per-processor sections, concatenated in goroutine arrival order)", x.tick, short(x.text, 160), short(y.text, 160))
			}
			return "C09|VM.Step|report-content-depends-on-schedule",
				fmt.Sprintf("tick %d: VM.Step returned %s in one schedule and %s in another (the per-processor sections themselves differ)", x.tick, short(x.text, 200), short(y.text, 200))
		case "E":
			return "C09|" + component + "|error-depends-on-schedule", fmt.Sprintf("tick %d: %s vs %s", x.tick, x.text, y.text)
		case "SPS":
			return "C09|SinglePipelineSimulate|result-depends-on-schedule", fmt.Sprintf("sim %d: %s vs %s", x.sim, x.text, y.text)
		default:
			return "C09|" + component + "|observation-depends-on-schedule", fmt.Sprintf("%q vs %q", short(x.text, 200), short(y.text, 200))
		}
	}
	return "C09|" + component + "|trace-length-depends-on-schedule", fmt.Sprintf("%d vs %d observation lines", len(a), len(c))
}

func componentOf(sc scen.Scenario) string {
	for _, s := range sc.Sims {
		if s.SPS {
			return "SinglePipelineSimulate"
		}
	}
	return "VM.Step"
}

// exploreLocal explores a (small) reference body in this process.
func exploreLocal(bound int, dl time.Duration, body func()) gs.Report {
	return gs.Explore(gs.Options{MaxPreemptions: bound, Deadline: dl}, body)
}

func plainKey(o gs.Outcome) bool {
	return !o.Deadlock && o.Panic == nil && !o.StepLimit && o.Nondeterminism == ""
}

// checkScenario applies the oracles to the merged report of one scenario.
func checkScenario(run *vlib.Run, b *scen.Built, rep gs.Report, st *scenStat) {
	sc := b.Sc
	setOpYield(sc.OpYield)
	defer setOpYield(false)
	comp := componentOf(sc)
	outs := sortedOutcomes(rep)
	mk := func(kind string, detail string, choices ...[]int) replayObj {
		for i := range choices {
			if choices[i] == nil {
				choices[i] = []int{}
			}
		}
		return replayObj{Scenario: sc.Name, Tier: run.Tier, Kind: kind, Choices: choices, Detail: detail}
	}
	// deadlocks / panics / step limits
	for _, o := range outs {
		switch {
		case o.Deadlock:
			var bl []string
			for _, g := range o.Blocked {
				bl = append(bl, g.String())
			}
			run.Report("C09|"+comp+"|deadlock", fmt.Sprintf("scenario %s deadlocks under schedule %v: %s", sc.Name, o.Choices, strings.Join(bl, "; ")), mk("deadlock", "", o.Choices))
		case o.Panic != nil:
			run.Report("C09|"+comp+"|panic-depends-on-schedule", fmt.Sprintf("scenario %s panics under schedule %v: %v", sc.Name, o.Choices, o.Panic), mk("panic", "", o.Choices))
		case o.StepLimit:
			run.Report("C09|"+comp+"|livelock", fmt.Sprintf("scenario %s exceeds the step limit under schedule %v", sc.Name, o.Choices), mk("deadlock", "", o.Choices))
		}
	}
	var good []gs.Outcome
	for _, o := range outs {
		if plainKey(o) {
			good = append(good, o)
		}
	}
	if len(good) == 0 {
		return
	}
	// (0) what a simulation reports about a processor is about THAT processor: the disassembly shown must be the
	// one its own architecture gives (a check against the machine, not against another run: process-wide state
	// left by earlier runs cannot hide behind "every run says the same")
	for _, o := range good {
		if i := strings.Index(o.Observation, "REPORT-MISMATCH"); i >= 0 {
			what := o.Observation[i:]
			if j := strings.Index(what, "\n"); j >= 0 {
				what = what[:j]
			}
			run.Report("C09|"+comp+"|report-of-another-architecture", fmt.Sprintf("scenario %s (%s), schedule %v: %s", sc.Name, sc.Note, o.Choices, what), mk("report", what, o.Choices))
			break
		}
	}
	// (a) schedule independence
	base := parseObs(good[0].Observation)
	for _, o := range good[1:] {
		sig, what := classifyDiff(b, comp, base, parseObs(o.Observation))
		run.Report(sig, fmt.Sprintf("scenario %s (%s): schedules %v and %v give different results: %s", sc.Name, sc.Note, good[0].Choices, o.Choices, what),
			mk("schedule-pair", what, good[0].Choices, o.Choices))
	}
	// (b) isolation of unconnected processors
	if sc.Isolation {
		np := len(sc.Sims[0].Def.Procs)
		solo := make([][]string, np)
		for p := 0; p < np; p++ {
			p := p
			var got []string
			r := exploreLocal(st.Bound, time.Minute, func() {
				tr := b.SoloProc(p)
				for _, l := range tr {
					gs.Observe(l)
				}
			})
			st.RefSchedules += r.Schedules
			run.Add("states", int(r.TotalPoints))
			run.Add("transitions", int(r.TotalSteps))
			run.Add("traces_validated_against_impl", r.Schedules)
			ro := sortedOutcomes(r)
			if len(ro) != 1 || !plainKey(ro[0]) {
				run.Report("C09|"+comp+"|one-processor-reference-not-unique", fmt.Sprintf("scenario %s processor %d alone gives %d outcomes", sc.Name, p, len(ro)), mk("isolation", "", nil))
				continue
			}
			got = strings.Split(ro[0].Observation, "\n")
			solo[p] = got
		}
	outer:
		for _, o := range good {
			ls := parseObs(o.Observation)
			for p := 0; p < np; p++ {
				if solo[p] == nil {
					continue
				}
				t := 0
				for _, l := range ls {
					if l.kind != "S" {
						continue
					}
					got := procsOf(l.text)[p]
					if t < len(solo[p]) && got != solo[p][t] {
						pc := uint64(0)
						if t > 0 {
							pc = pcOf(solo[p][t-1])
						}
						op := b.OpAt(0, p, pc)
						what := fmt.Sprintf("tick %d processor %d (executing %s at pc %d): {%s} inside the %d-processor machine, {%s} when the same program runs alone", t+1, p, op, pc, got, np, solo[p][t])
						run.Report("C09|op:"+op+"|state-interference",
							fmt.Sprintf("scenario %s (%s), schedule %v: %s", sc.Name, sc.Note, o.Choices, what), mk("isolation", what, o.Choices))
						continue outer
					}
					t++
				}
			}
		}
	}
	// (c) concurrent simulations behave as when run alone
	if len(sc.Sims) > 1 {
		for i := range sc.Sims {
			i := i
			r := exploreLocal(st.Bound, 2*time.Minute, func() { observeAll(b.Alone(i)) })
			st.RefSchedules += r.Schedules
			run.Add("states", int(r.TotalPoints))
			run.Add("transitions", int(r.TotalSteps))
			run.Add("traces_validated_against_impl", r.Schedules)
			alone := map[string]bool{}
			var first []obsLine
			for _, o := range sortedOutcomes(r) {
				if !plainKey(o) {
					continue
				}
				p := projection(parseObs(o.Observation), i)
				if first == nil {
					first = p
				}
				alone[renderLines(p)] = true
			}
			if len(alone) == 0 {
				continue
			}
			for _, o := range good {
				p := projection(parseObs(o.Observation), i)
				if alone[renderLines(p)] {
					continue
				}
				sig, what := classifyDiff(b, comp, first, p)
				// op level state differences keep the one signature of their root cause (state-interference);
				// everything else names the concurrent-simulation oracle
				sig = strings.Replace(sig, "depends-on-schedule", "differs-when-simulations-run-concurrently", 1)
				run.Report(sig, fmt.Sprintf("scenario %s (%s), schedule %v: simulation %d running concurrently with the other one produces something it never produces alone: %s", sc.Name, sc.Note, o.Choices, i, what),
					mk("concurrent", what, o.Choices))
				break
			}
		}
	}
}

// ------------------------------------------------------------- race pass

var raceFrameRe = regexp.MustCompile(`^  (\S.*)\(.*\)$`)

type raceReport struct {
	fn   [2]string
	pos  [2]string
	kind [2]string
}

func trimFn(f string) string {
	f = strings.TrimPrefix(f, "github.com/BondMachineHQ/BondMachine/pkg/")
	f = strings.TrimPrefix(f, "github.com/BondMachineHQ/BondMachine/")
	f = strings.ReplaceAll(f, "(*", "")
	f = strings.ReplaceAll(f, ")", "")
	return f
}

func parseRaces(stderr string) []raceReport {
	var out []raceReport
	blocks := strings.Split(stderr, "WARNING: DATA RACE")
	for _, blk := range blocks[1:] {
		if i := strings.Index(blk, "=================="); i >= 0 {
			blk = blk[:i]
		}
		secs := strings.Split(strings.TrimSpace(blk), "\n\n")
		var rr raceReport
		n := 0
		for _, s := range secs {
			lines := strings.Split(s, "\n")
			hdr := strings.TrimSpace(lines[0])
			if !(strings.HasPrefix(hdr, "Write at") || strings.HasPrefix(hdr, "Read at") || strings.HasPrefix(hdr, "Previous write at") || strings.HasPrefix(hdr, "Previous read at") ||
				strings.HasPrefix(hdr, "Atomic") || strings.HasPrefix(hdr, "Previous atomic")) {
				continue
			}
			if n >= 2 {
				break
			}
			rr.kind[n] = strings.ToLower(strings.Fields(strings.TrimPrefix(hdr, "Previous "))[0])
			for j := 1; j+1 < len(lines); j += 2 {
				m := raceFrameRe.FindStringSubmatch(lines[j])
				if m == nil {
					continue
				}
				fn := m[1]
				if strings.HasPrefix(fn, "runtime.") || strings.HasPrefix(fn, "internal/") || strings.HasPrefix(fn, "sync.") || strings.HasPrefix(fn, "sync/") {
					continue
				}
				rr.fn[n] = trimFn(fn)
				rr.pos[n] = strings.Fields(strings.TrimSpace(lines[j+1]))[0]
				break
			}
			n++
		}
		if n == 2 {
			out = append(out, rr)
		}
	}
	return out
}

func inRepo(pos string) bool { return strings.HasPrefix(pos, "/repo/") }

// racePass runs the free-running -race binary; started concurrently with the exploration, its
// findings are reported (report == true) after the exploration's.
func racePass(run *vlib.Run) (report func()) {
	if *fRaceBin == "" {
		return func() { run.Set("race_pass", "skipped (no -racebin)") }
	}
	iters, budget := 40, 15*time.Second
	if run.Thorough() {
		iters, budget = 300, 120*time.Second
	}
	args := []string{"-iters", strconv.Itoa(iters), "-procs", "1,2,4,16", "-budget", budget.String()}
	if run.Thorough() {
		args = append(args, "-thorough")
	}
	cmd := exec.Command(*fRaceBin, args...)
	cmd.Env = append(os.Environ(), "GORACE=halt_on_error=0 exitcode=0")
	var out, eb bytes.Buffer
	cmd.Stdout, cmd.Stderr = &out, &eb
	t0 := time.Now()
	done := make(chan error, 1)
	go func() { done <- cmd.Run() }()
	return func() {
		err := <-done
		info := map[string]any{"iterations_per_scenario_per_gomaxprocs": iters, "gomaxprocs": []int{1, 2, 4, 16}, "wall_s": time.Since(t0).Seconds()}
		if err != nil {
			info["error"] = err.Error() + ": " + tail(eb.String(), 600)
		}
		var free []string
		for _, l := range strings.Split(out.String(), "\n") {
			if strings.HasPrefix(l, "FREE-TOTAL") {
				info["total"] = l
			} else if strings.HasPrefix(l, "FREE ") && strings.Contains(l, "distinct_observations=") && !strings.HasSuffix(l, "distinct_observations=1") && !strings.HasSuffix(l, "distinct_observations=0") {
				free = append(free, strings.TrimPrefix(l, "FREE "))
			}
		}
		info["free_runs_with_more_than_one_observation"] = free
		races := parseRaces(eb.String())
		info["race_reports"] = len(races)
		harness := 0
		seen := map[string]bool{}
		var sigs []string
		for _, r := range races {
			if !inRepo(r.pos[0]) && !inRepo(r.pos[1]) {
				harness++
				fmt.Printf("note: race report with both accesses outside /repo ignored (harness): %s %s / %s %s\n", r.fn[0], r.pos[0], r.fn[1], r.pos[1])
				continue
			}
			fa, fb := r.fn[0], r.fn[1]
			a, c := 0, 1
			if fb < fa {
				fa, fb = fb, fa
				a, c = 1, 0
			}
			sig := "C09|data-race|" + fa + "|" + fb
			if seen[sig] {
				continue
			}
			seen[sig] = true
			sigs = append(sigs, sig)
			run.Report(sig, fmt.Sprintf("race detector (free-running scenarios, uninstrumented code): %s by %s at %s races with %s by %s at %s", r.kind[a], r.fn[a], r.pos[a], r.kind[c], r.fn[c], r.pos[c]),
				replayObj{Kind: "race", Tier: run.Tier, Detail: fmt.Sprintf("%s %s | %s %s", r.fn[a], r.pos[a], r.fn[c], r.pos[c])})
		}
		info["harness_only_reports_ignored"] = harness
		info["distinct_race_signatures"] = sigs
		run.Set("race_pass", info)
	}
}

// ------------------------------------------------------------- replay

func replayMain(run *vlib.Run) {
	var ro replayObj
	sig, err := vlib.LoadReplay(run.Replay, &ro)
	if err != nil {
		fmt.Println("cannot load replay:", err)
		os.Exit(2)
	}
	fmt.Printf("replaying %s\n  kind=%s scenario=%s tier=%s\n", sig, ro.Kind, ro.Scenario, ro.Tier)
	if ro.Kind == "race" {
		if *fRaceBin == "" {
			fmt.Println("race replay needs -racebin")
			os.Exit(2)
		}
		cmd := exec.Command(*fRaceBin, "-iters", "300", "-procs", "2,4,16", "-budget", "30s")
		cmd.Env = append(os.Environ(), "GORACE=halt_on_error=0 exitcode=0")
		var eb bytes.Buffer
		cmd.Stderr = &eb
		cmd.Run()
		hit := false
		for _, r := range parseRaces(eb.String()) {
			fa, fb := r.fn[0], r.fn[1]
			if fb < fa {
				fa, fb = fb, fa
			}
			s := "C09|data-race|" + fa + "|" + fb
			fmt.Printf("  race reported: %s (%s / %s)\n", s, r.pos[0], r.pos[1])
			if s == sig {
				hit = true
			}
		}
		fmt.Printf("REPLAY-RESULT signature reproduced: %v\n", hit)
		return
	}
	sc, ok := scen.ByName(ro.Scenario)
	if !ok {
		fmt.Println("unknown scenario", ro.Scenario)
		os.Exit(2)
	}
	b := scen.Prepare(sc, ro.Tier == "thorough")
	setOpYield(sc.OpYield)
	body := scenarioBody(b)
	var obs []gs.Outcome
	for i, ch := range ro.Choices {
		o1 := gs.Replay(ch, body)
		o2 := gs.Replay(ch, body)
		same := reflect.DeepEqual(o1, o2)
		fmt.Printf("--- schedule #%d %v: steps=%d preemptions=%d goroutines=%d deadlock=%v panic=%v nondeterminism=%q; identical on second replay: %v\n",
			i, ch, o1.Steps, o1.Preemptions, o1.Goroutines, o1.Deadlock, o1.Panic, o1.Nondeterminism, same)
		for _, l := range strings.Split(o1.Observation, "\n") {
			fmt.Println("    " + short(l, 400))
		}
		if o1.Deadlock {
			for _, g := range o1.Blocked {
				fmt.Println("    blocked:", g.String())
			}
		}
		obs = append(obs, o1)
	}
	// re-run the oracles on exactly these schedules
	rep := gs.Report{FirstOfEachOutcome: map[string]gs.Outcome{}, Outcomes: map[string]int{}}
	for _, o := range obs {
		rep.FirstOfEachOutcome[o.Key()] = o
		rep.Outcomes[o.Key()]++
	}
	st := &scenStat{Bound: boundOf(sc, ro.Tier == "thorough")}
	fmt.Println("--- oracle verdict on the replayed schedule(s):")
	checkScenario(run, b, rep, st)
	fmt.Printf("REPLAY-RESULT violations=%d (known findings are listed below)\n", run.Violations())
	run.Finish()
}

// ------------------------------------------------------------- main

func main() {
	run := vlib.Start("C09", "model_checking")
	scen.TickOverride = *fTicks
	if *fChild {
		childMain(run)
		return
	}
	if run.Replay != "" {
		replayMain(run)
		return
	}
	self, err := os.Executable()
	if err != nil {
		panic(err)
	}
	thorough := run.Thorough()
	run.Assume("no delay distributions (SimDelayMap nil): random instruction delays are intentional randomness outside this property")
	run.Assume("gosched atomicity: code between two channel/sync operations of a goroutine runs atomically; unsynchronised shared memory inside such a block is covered only by the supplementary -race pass")
	run.Assume("every explored execution and every reference run starts from the process-initial opcode state (pipeline flags of procbuilder.Allopcodes false), i.e. the state of a fresh process")
	run.Assume("schedules with at most `preemption_bound` preemptions per scenario (all interleavings when all_interleavings_covered is true)")

	var scs []scen.Scenario
	for _, sc := range scen.All() {
		if sc.RaceOnly {
			continue
		}
		if *fScenario == "" || *fScenario == sc.Name {
			scs = append(scs, sc)
		}
	}
	type res struct {
		rep  gs.Report
		err  error
		wall float64
	}
	results := make([]res, len(scs))
	raceReport := racePass(run)
	endBy := time.Now().Add(budgetOf(thorough)).Unix()
	run.Set("exploration_budget_s", budgetOf(thorough).Seconds())
	sem := make(chan struct{}, *fShards)
	var wg sync.WaitGroup
	for i, sc := range scs {
		wg.Add(1)
		go func(i int, sc scen.Scenario) {
			defer wg.Done()
			t0 := time.Now()
			r, err := runShards(self, sc, run.Tier, *fShards, sem, endBy)
			results[i] = res{r, err, time.Since(t0).Seconds()}
		}(i, sc)
	}
	wg.Wait()

	exhaustive := true
	var stats []scenStat
	for i, sc := range scs {
		r := results[i]
		if r.err != nil {
			fmt.Fprintln(os.Stderr, "harness error:", r.err)
			os.Exit(2)
		}
		b := scen.Prepare(sc, thorough)
		st := scenStat{Name: sc.Name, Note: sc.Note, Ticks: b.T, Bound: boundOf(sc, thorough), BoundCompleted: r.rep.BoundCompleted, Exhaustive: r.rep.Exhaustive,
			FullyExplored: r.rep.FullyExplored, CapHit: r.rep.CapHit, Schedules: r.rep.Schedules, Executions: r.rep.Executions, ChoicePoints: r.rep.TotalPoints,
			Transitions: r.rep.TotalSteps, MaxPoints: r.rep.MaxPoints, Outcomes: len(r.rep.Outcomes), Deadlocks: r.rep.DeadlockCount, Panics: r.rep.PanicCount,
			Nondeterministic: r.rep.Nondeterministic, LeakedMin: r.rep.LeakedMin, LeakedMax: r.rep.LeakedMax, WallS: r.wall}
		if componentOf(sc) == "SinglePipelineSimulate" {
			st.Ticks = 0
		}
		run.Add("states", int(r.rep.TotalPoints))
		run.Add("transitions", int(r.rep.TotalSteps))
		run.Add("traces_validated_against_impl", r.rep.Schedules)
		run.Add("schedules", r.rep.Schedules)
		run.Add("executions", r.rep.Executions)
		run.Add("distinct_outcomes_total", len(r.rep.Outcomes))
		if !r.rep.Exhaustive {
			exhaustive = false
		}
		checkScenario(run, b, r.rep, &st)
		stats = append(stats, st)
		fmt.Printf("scenario %-18s T=%d bound=%d completed=%d full=%v schedules=%d executions=%d points=%d transitions=%d outcomes=%d deadlocks=%d panics=%d nondet=%d wall=%.1fs %s\n",
			st.Name, st.Ticks, st.Bound, st.BoundCompleted, st.FullyExplored, st.Schedules, st.Executions, st.ChoicePoints, st.Transitions, st.Outcomes, st.Deadlocks, st.Panics, st.Nondeterministic, st.WallS, st.CapHit)
		if *fVerbose {
			for _, o := range sortedOutcomes(r.rep) {
				fmt.Printf("   outcome x%d first schedule %v: %s\n", r.rep.Outcomes[o.Key()], o.Choices, short(strings.ReplaceAll(o.Key(), "\n", " // "), 300))
			}
		}
		if len(stats) <= 4 {
			run.Sample(map[string]any{"scenario": sc.Name, "schedules": st.Schedules, "first_outcome": short(sortedOutcomes(r.rep)[0].Key(), 500)})
		}
	}
	run.Set("scenarios", stats)
	run.Set("exhaustive", exhaustive)
	run.Set("shards", *fShards)
	run.Set("bounds", map[string]any{"tier": run.Tier, "ticks_and_preemption_bound_per_scenario": "see scenarios[]", "processors_per_machine": "1..3", "concurrent_simulations": "1..2"})
	raceReport()
	run.Finish()
}
