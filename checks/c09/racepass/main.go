// racepass: the C09 scenarios free-running on the ORIGINAL (uninstrumented) simulator code, for
// the supplementary `go build -race` pass.  No scheduler, no shim: the Go runtime schedules the
// per-processor workers and the concurrent callers.  For every GOMAXPROCS value every scenario
// body is run -iters times; the race detector writes its reports to stderr (the parent parses
// them), this program only prints what it ran and whether the free runs agreed with each other.
//
//	racepass -iters 200 -procs 1,2,4,16 [-thorough] [-scenario name] [-dump]
package main

import (
	"flag"
	"fmt"
	"os"
	"runtime"
	"strconv"
	"strings"
	"sync"
	"time"

	"verif/checks/c09/scen"
)

func spawn(fns ...func()) {
	var wg sync.WaitGroup
	for _, f := range fns {
		wg.Add(1)
		go func() { defer wg.Done(); f() }()
	}
	wg.Wait()
}

func main() {
	iters := flag.Int("iters", 100, "runs of every scenario per GOMAXPROCS value")
	procs := flag.String("procs", "1,2,4,16", "GOMAXPROCS values")
	thorough := flag.Bool("thorough", false, "thorough tier tick counts")
	only := flag.String("scenario", "", "run only this scenario")
	dump := flag.Bool("dump", false, "print the observation of the first run of every scenario")
	budget := flag.Duration("budget", 15*time.Second, "wall clock budget; iterations stop when it is used up")
	flag.Parse()
	start := time.Now()
	var gmp []int
	for _, ps := range strings.Split(*procs, ",") {
		n, err := strconv.Atoi(ps)
		if err != nil || n < 1 {
			fmt.Fprintln(os.Stderr, "bad -procs")
			os.Exit(2)
		}
		gmp = append(gmp, n)
	}
	type cell struct {
		b        *scen.Built
		distinct map[string]int
		done     int
	}
	var scs []scen.Scenario
	for _, sc := range scen.All() {
		if *only == "" || sc.Name == *only {
			scs = append(scs, sc)
		}
	}
	cells := map[[2]int]*cell{}
	for gi := range gmp {
		for si, sc := range scs {
			cells[[2]int{gi, si}] = &cell{b: scen.Prepare(sc, *thorough), distinct: map[string]int{}}
		}
	}
	// round robin in batches, so that a used-up budget thins every (GOMAXPROCS, scenario) cell
	// equally instead of dropping the last ones
	const batch = 10
	runs := 0
	capped := false
rounds:
	for r := 0; r*batch < *iters; r++ {
		for gi, n := range gmp {
			runtime.GOMAXPROCS(n)
			for si, sc := range scs {
				c := cells[[2]int{gi, si}]
				for i := 0; i < batch && c.done < *iters; i++ {
					if time.Since(start) > *budget {
						capped = true
						break rounds
					}
					obs := strings.Join(c.b.Run(spawn), "\n")
					if *dump && c.done == 0 && gi == 0 {
						fmt.Printf("--- %s\n%s\n", sc.Name, obs)
					}
					c.distinct[obs]++
					c.done++
					runs++
				}
			}
		}
	}
	for gi, n := range gmp {
		for si, sc := range scs {
			c := cells[[2]int{gi, si}]
			fmt.Printf("FREE gomaxprocs=%d scenario=%s runs=%d distinct_observations=%d\n", n, sc.Name, c.done, len(c.distinct))
		}
	}
	fmt.Printf("FREE-TOTAL runs=%d capped=%v goroutines_at_exit=%d wall=%.1fs\n", runs, capped, runtime.NumGoroutine(), time.Since(start).Seconds())
}
