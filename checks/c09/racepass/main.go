// racepass: the C09 scenarios free-running on the ORIGINAL (uninstrumented) simulator code, for
// the supplementary `go build -race` pass.  No scheduler, no shim: the Go runtime schedules the
// per-processor workers and the concurrent callers.  For every GOMAXPROCS value every scenario
// body is run -iters times; the race detector writes its reports to stderr (the parent parses
// them), this program only prints what it ran and whether the free runs agreed with each other.
//
//	racepass -iters 200 -procs 1,2,4,16 [-thorough] [-scenario name] [-dump]
package main

import (
	"flag"
	"fmt"
	"os"
	"runtime"
	"strconv"
	"strings"
	"sync"
	"time"

	"verif/checks/c09/scen"
)

func spawn(fns ...func()) {
	var wg sync.WaitGroup
	for _, f := range fns {
		wg.Add(1)
		go func() { defer wg.Done(); f() }()
	}
	wg.Wait()
}

func main() {
	iters := flag.Int("iters", 100, "runs of every scenario per GOMAXPROCS value")
	procs := flag.String("procs", "1,2,4,16", "GOMAXPROCS values")
	thorough := flag.Bool("thorough", false, "thorough tier tick counts")
	only := flag.String("scenario", "", "run only this scenario")
	dump := flag.Bool("dump", false, "print the observation of the first run of every scenario")
	budget := flag.Duration("budget", 15*time.Second, "wall clock budget; iterations stop when it is used up")
	flag.Parse()
	start := time.Now()
	runs := 0
	capped := false
	for _, ps := range strings.Split(*procs, ",") {
		n, err := strconv.Atoi(ps)
		if err != nil || n < 1 {
			fmt.Fprintln(os.Stderr, "bad -procs")
			os.Exit(2)
		}
		runtime.GOMAXPROCS(n)
		for _, sc := range scen.All() {
			if *only != "" && sc.Name != *only {
				continue
			}
			b := scen.Prepare(sc, *thorough)
			distinct := map[string]int{}
			done := 0
			for i := 0; i < *iters; i++ {
				if time.Since(start) > *budget {
					capped = true
					break
				}
				obs := strings.Join(b.Run(spawn), "\n")
				if *dump && i == 0 && n == 1 {
					fmt.Printf("--- %s\n%s\n", sc.Name, obs)
				}
				distinct[obs]++
				runs++
				done++
			}
			fmt.Printf("FREE gomaxprocs=%d scenario=%s runs=%d distinct_observations=%d\n", n, sc.Name, done, len(distinct))
		}
	}
	fmt.Printf("FREE-TOTAL runs=%d capped=%v goroutines_at_exit=%d wall=%.1fs\n", runs, capped, runtime.NumGoroutine(), time.Since(start).Seconds())
}
