#!/bin/bash
# C09 runner: usage  checks/c09/run.sh <quick|thorough> [extra args, e.g. -replay FILE | -scenario NAME | -v]
# Re-instruments /repo's CURRENT working tree (plus the VERIF_OVERLAY mutant overlay, if set) into a
# fresh scratch dir, builds the harness with -tags gosched -overlay and the race-pass binary with
# -race, runs the harness, removes the scratch dir.  /repo is never written.
set -u
cd /verif
. /verif/env.sh
tier="${1:-quick}"; shift || true
S=$(mktemp -d /tmp/verif-c09-XXXXXX) || exit 2
trap 'rm -rf "$S"' EXIT INT TERM
TARGETS="pkg/bondmachine pkg/procbuilder pkg/simbox pkg/bmreqs pkg/basm"
if ! go run ./checks/c09/gsprep -hook -out "$S" -plain "$S/plain.json" $TARGETS > "$S/prep.log" 2>&1; then
  cat "$S/prep.log" >&2; echo "BUILD-FAILED check=C09 (instrumentation failed)" >&2; exit 2
fi
grep -h "warning" "$S/prep.log" >&2
( go build -race -overlay "$S/plain.json" -o "$S/racepass" ./checks/c09/racepass > "$S/race.buildlog" 2>&1 ) &
racepid=$!
if ! go build -tags gosched -overlay "$S/overlay.json" -o "$S/c09" ./checks/c09 2> "$S/buildlog"; then
  cat "$S/buildlog" >&2; echo "BUILD-FAILED check=C09 (the check could not be built against the current /repo tree)" >&2; exit 2
fi
if ! wait $racepid; then
  cat "$S/race.buildlog" >&2; echo "BUILD-FAILED check=C09 (race-pass binary)" >&2; exit 2
fi
"$S/c09" -tier "$tier" -racebin "$S/racepass" "$@"
rc=$?
exit $rc
