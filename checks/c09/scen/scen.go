// Package scen holds the simulation scenarios of check C09: BondMachines built through the
// real builder API, the bodies that drive the real simulator (VM.Init / Launch_processors /
// VM.Step, SinglePipelineSimulate), and the state digests.  It does not import the gosched
// shim, so the same bodies serve the controlled exploration (harness, tag gosched) and the
// free-running -race pass (checks/c09/racepass).
package scen

import (
	"encoding/json"
	"fmt"
	"reflect"
	"sort"
	"strings"
	"sync/atomic"
	"unsafe"

	"github.com/BondMachineHQ/BondMachine/pkg/bmnumbers"
	"github.com/BondMachineHQ/BondMachine/pkg/bondmachine"
	"github.com/BondMachineHQ/BondMachine/pkg/procbuilder"
	"github.com/BondMachineHQ/BondMachine/pkg/simbox"

	"verif/lib/bmgen"
)

// ---------------------------------------------------------------- machines

// Proc is one processor: program text, number of inputs and outputs.
type Proc struct {
	Prog string
	N, M uint8
}

// MachineDef describes a BondMachine: processors, BM inputs/outputs and bonds.
type MachineDef struct {
	Procs   []Proc
	Inputs  int
	Outputs int
	Bonds   [][2]string
	// SameDomain: all processors are instances of one domain (Procs[0])
	SameDomain bool
	// Rsize: register size (0 = 8). With 12-bit registers the simulator cannot execute inc (implemented for
	// 8/16/32/64 bits only): the processor's step FAILS in every tick
	Rsize uint8
}

func opsOf(prog string) []string {
	seen := map[string]bool{}
	var ops []string
	for _, l := range strings.Split(prog, "\n") {
		f := strings.Fields(l)
		if len(f) == 0 {
			continue
		}
		if !seen[f[0]] {
			seen[f[0]] = true
			ops = append(ops, f[0])
		}
	}
	return ops
}

func buildProc(p Proc, rsize uint8) *procbuilder.Machine {
	if rsize == 0 {
		rsize = 8
	}
	m, err := bmgen.NewMachine(bmgen.ArchSpec{Rsize: rsize, R: 2, N: p.N, M: p.M, L: 1, O: 3, Ops: opsOf(p.Prog)})
	if err != nil {
		panic(err)
	}
	prog, err := m.Arch.Assembler([]byte(p.Prog))
	if err != nil {
		panic(fmt.Sprintf("assembling %q: %v", p.Prog, err))
	}
	m.Program = prog
	return m
}

// Build constructs the BondMachine through the real builder API.
func (d MachineDef) Build() *bondmachine.Bondmachine {
	b := new(bondmachine.Bondmachine)
	b.Rsize = 8
	if d.Rsize != 0 {
		b.Rsize = d.Rsize
	}
	b.Init()
	if d.SameDomain {
		// every processor is an instance of ONE domain (the first processor's): one procbuilder.Machine object is
		// then shared by all the per-processor simulator workers
		b.Domains = append(b.Domains, buildProc(d.Procs[0], d.Rsize))
		for range d.Procs {
			if _, err := b.Add_processor(0); err != nil {
				panic(err)
			}
		}
	} else {
		for i, p := range d.Procs {
			b.Domains = append(b.Domains, buildProc(p, d.Rsize))
			if _, err := b.Add_processor(i); err != nil {
				panic(err)
			}
		}
	}
	for i := 0; i < d.Inputs; i++ {
		b.Add_input()
	}
	for i := 0; i < d.Outputs; i++ {
		b.Add_output()
	}
	for _, bd := range d.Bonds {
		b.Add_bond([]string{bd[0], bd[1]})
	}
	return b
}

// Reload passes a machine through save and load (Jsoner -> JSON -> Dejsoner -> Init): the result is a machine whose
// objects nothing has touched yet, the state in which cmd/simfinetune and cmd/bondmachine start simulating.
func Reload(b *bondmachine.Bondmachine) *bondmachine.Bondmachine {
	js, err := json.Marshal(b.Jsoner())
	if err != nil {
		panic(err)
	}
	var j bondmachine.Bondmachine_json
	if err := json.Unmarshal(js, &j); err != nil {
		panic(err)
	}
	n := (&j).Dejsoner()
	n.Init()
	return n
}

// Indep builds k unconnected processors, processor i has one output bonded to BM output i.
func Indep(progs ...string) MachineDef {
	d := MachineDef{Outputs: len(progs)}
	for i, p := range progs {
		d.Procs = append(d.Procs, Proc{Prog: p, N: 0, M: 1})
		d.Bonds = append(d.Bonds, [2]string{fmt.Sprintf("o%d", i), fmt.Sprintf("p%do0", i)})
	}
	return d
}

// Solo is the one-processor machine holding processor i of d with the same program and shape
// (its outputs exported to BM outputs, its inputs left unconnected exactly when they are
// unconnected to other processors in d; only used for machines built with Indep).
func (d MachineDef) Solo(i int) MachineDef { return Indep(d.Procs[i].Prog) }

// ProdCons: p0 produces a value on a bond (r2owa), p1 consumes it (i2rw), increments it and
// publishes it on the BM output.
func ProdCons() MachineDef {
	return MachineDef{
		Procs: []Proc{
			{Prog: "rset r0 5\nr2owa r0 o0\ninc r0\nj 1\n", N: 0, M: 1},
			{Prog: "i2rw r1 i0\ninc r1\nr2owa r1 o0\nj 0\n", N: 1, M: 1},
		},
		Outputs: 1,
		Bonds:   [][2]string{{"p1i0", "p0o0"}, {"o0", "p1o0"}},
	}
}

// InOut is a one-processor pipeline for SinglePipelineSimulate: BM input i0 -> prog -> BM output o0.
func InOut(prog string) MachineDef {
	return MachineDef{
		Procs:   []Proc{{Prog: prog, N: 1, M: 1}},
		Inputs:  1,
		Outputs: 1,
		Bonds:   [][2]string{{"p0i0", "i0"}, {"o0", "p0o0"}},
	}
}

// InOut2 is InOut with a second BM output: SinglePipelineSimulate renders every output but the last one with the
// caller's data type, so only machines with >= 2 outputs exercise the number-type registry.
func InOut2(prog string) MachineDef {
	return MachineDef{
		Procs:   []Proc{{Prog: prog, N: 1, M: 2}},
		Inputs:  1,
		Outputs: 2,
		Bonds:   [][2]string{{"p0i0", "i0"}, {"o0", "p0o0"}, {"o1", "p0o1"}},
	}
}

// TwoInputsOneSource: the producer's single output is bonded to BOTH inputs of the consumer, which reads them one
// after the other: the two pending acknowledgements of the consumer end at the same tick (the producer withdraws
// one valid line).
func TwoInputsOneSource() MachineDef {
	return MachineDef{
		Procs: []Proc{
			{Prog: "rset r0 5\nr2owa r0 o0\ninc r0\nj 1\n", N: 0, M: 1},
			{Prog: "i2rw r1 i0\ni2rw r2 i1\nadd r1 r2\nr2owa r1 o0\nj 0\n", N: 2, M: 1},
		},
		Outputs: 1,
		Bonds:   [][2]string{{"p1i0", "p0o0"}, {"p1i1", "p0o0"}, {"o0", "p1o0"}},
	}
}

// --------------------------------------------------- process-wide opcode state

// ResetOpcodeState puts the process-wide opcode singletons (procbuilder.Allopcodes) back into
// their initial state: every `pipeline *bool` flag false.  Each explored execution and each
// reference run starts from it, i.e. from the state of a fresh process.
func ResetOpcodeState() {
	for _, op := range procbuilder.Allopcodes {
		v := reflect.ValueOf(op)
		if v.Kind() != reflect.Struct {
			continue
		}
		for i := 0; i < v.NumField(); i++ {
			f := v.Field(i)
			if f.Kind() == reflect.Ptr && f.Type().Elem().Kind() == reflect.Bool && !f.IsNil() {
				*(*bool)(unsafe.Pointer(f.Pointer())) = false
			}
		}
	}
}

// OpcodeStateDigest lists the opcode singletons whose shared flag is currently set.
func OpcodeStateDigest() string {
	var on []string
	for _, op := range procbuilder.Allopcodes {
		v := reflect.ValueOf(op)
		if v.Kind() != reflect.Struct {
			continue
		}
		for i := 0; i < v.NumField(); i++ {
			f := v.Field(i)
			if f.Kind() == reflect.Ptr && f.Type().Elem().Kind() == reflect.Bool && !f.IsNil() {
				if *(*bool)(unsafe.Pointer(f.Pointer())) {
					on = append(on, op.Op_get_name())
				}
			}
		}
	}
	return strings.Join(on, ",")
}

// ------------------------------------------------------------------ digests

func vals(a []interface{}) string { return fmt.Sprint(a) }

// ProcDigest is the complete architectural state of one processor.
func ProcDigest(p *procbuilder.VM) string {
	var def []string
	for k := range p.DeferredInstructions {
		def = append(def, k)
	}
	sort.Strings(def)
	var ex []string
	for k, v := range p.Extra_states {
		ex = append(ex, fmt.Sprintf("%s=%v", k, v))
	}
	sort.Strings(ex)
	return fmt.Sprintf("pc=%d r=%s m=%s in=%s out=%s iv=%v ov=%v ir=%v or=%v dly=%d def=%v ex=%v",
		p.Pc, vals(p.Registers), vals(p.Memory), vals(p.Inputs), vals(p.Outputs),
		p.InputsValid, p.OutputsValid, p.InputsRecv, p.OutputsRecv, p.DelayCounter, def, ex)
}

// Tick is the observable result of one VM.Step.
type Tick struct {
	Procs  []string // ProcDigest of every processor
	Top    string   // BM level registers and handshake flags
	Report string   // string returned by VM.Step
	Err    string
}

func (t Tick) State() string {
	return strings.Join(t.Procs, " ; ") + " ;; " + t.Top
}

func topDigest(vm *bondmachine.VM) string {
	return fmt.Sprintf("I=%s O=%s II=%s IO=%s Iv=%v Ov=%v IIv=%v IOv=%v Ir=%v Or=%v IIr=%v IOr=%v",
		vals(vm.Inputs_regs), vals(vm.Outputs_regs), vals(vm.Internal_inputs_regs), vals(vm.Internal_outputs_regs),
		vm.InputsValid, vm.OutputsValid, vm.InternalInputsValid, vm.InternalOutputsValid,
		vm.InputsRecv, vm.OutputsRecv, vm.InternalInputsRecv, vm.InternalOutputsRecv)
}

// Trace is the tick-by-tick result of one simulation.
type Trace []Tick

// Lines renders the trace; prefix distinguishes several simulations in one observation.
func (tr Trace) Lines(prefix string) []string {
	var out []string
	for i, t := range tr {
		out = append(out, fmt.Sprintf("%st%d S %s", prefix, i+1, t.State()))
		out = append(out, fmt.Sprintf("%st%d R %q", prefix, i+1, t.Report))
		if t.Err != "" {
			out = append(out, fmt.Sprintf("%st%d E %s", prefix, i+1, t.Err))
		}
	}
	return out
}

// RunVM runs one simulation on the real simulator: VM.Init, Launch_processors with the simbox
// built from rules (e.g. "config:show_pc"), then T x VM.Step; no delay distributions.
func RunVM(bm *bondmachine.Bondmachine, rules []string, T int) Trace {
	sbox := new(simbox.Simbox)
	for _, r := range rules {
		if err := sbox.Add(r); err != nil {
			panic(err)
		}
	}
	vm := &bondmachine.VM{Bmach: bm}
	if err := vm.Init(); err != nil {
		panic(err)
	}
	sc := new(bondmachine.SimConfig)
	if err := sc.Init(sbox, vm, new(bondmachine.Config)); err != nil {
		panic(err)
	}
	if err := vm.Launch_processors(sbox); err != nil {
		panic(err)
	}
	showDisasm := false
	for _, r := range rules {
		if r == "config:show_disasm" {
			showDisasm = true
		}
	}
	var tr Trace
	for s := 0; s < T; s++ {
		var want []string
		if showDisasm {
			want = ownDisasm(bm, vm)
		}
		rep, err := vm.Step(sc)
		t := Tick{Report: rep, Top: topDigest(vm)}
		if err != nil {
			t.Err = err.Error()
		}
		if showDisasm && err == nil {
			// the disassembly a processor reports is the disassembly of ITS word under ITS architecture, whatever
			// else ran in the process before (checked against the architecture, not against another run)
			var got []string
			for _, l := range strings.Split(rep, "\n") {
				if i := strings.Index(l, "Disasm: "); i >= 0 {
					got = append(got, strings.TrimSpace(l[i+len("Disasm: "):]))
				}
			}
			if strings.Join(got, " | ") != strings.Join(want, " | ") {
				t.Err = fmt.Sprintf("REPORT-MISMATCH disassembly shown [%s], the processors' own architectures give [%s]", strings.Join(got, " | "), strings.Join(want, " | "))
			}
		}
		for _, p := range vm.Processors {
			t.Procs = append(t.Procs, ProcDigest(p))
		}
		tr = append(tr, t)
	}
	return tr
}

// ownDisasm disassembles, for every processor in order, the word at its current pc with the processor's own
// architecture (nothing for a pc beyond the program).
func ownDisasm(bm *bondmachine.Bondmachine, vm *bondmachine.VM) []string {
	var out []string
	for i, p := range vm.Processors {
		m := bm.Domains[bm.Processors[i]]
		if int(p.Pc) >= len(m.Program.Slocs) {
			continue
		}
		w := m.Program.Slocs[p.Pc]
		id, err := m.Conproc.Decode_opcode(w)
		if err != nil {
			continue
		}
		op := m.Arch.Conproc.Op[id]
		d, err := op.Disassembler(&m.Arch, w[m.Arch.Opcodes_bits():])
		if err != nil {
			continue
		}
		out = append(out, strings.TrimSpace(op.Op_get_name()+" "+d))
	}
	return out
}

// SharedDelays is ONE per-opcode delay table handed to every simulation of a scenario that asks for
// delays, the way cmd/simfinetune shares one table between its concurrent workers. Every
// distribution has a single value, so simulation results stay deterministic.
var SharedDelays = &simbox.SimDelays{OpcodeDelays: map[string]simbox.DelayDistribution{
	"inc":   {2: 1.0},
	"i2rw":  {1: 1.0},
	"r2owa": {1: 1.0},
}}

// RunSPS runs Bondmachine.SinglePipelineSimulate (without delays, or with the shared delay table)
// and renders its result.
// The observation also says by how much the process-wide number-type registry grew during the call: a simulation
// that shows values of an already registered type leaves it alone.
func RunSPS(bm *bondmachine.Bondmachine, input []string, delays bool, dataType string) string {
	return runSPS(bm, input, delays, dataType, true)
}

// measure == false: the registry is not looked at (the harness has no synchronised way to read it while another
// simulation legitimately registers a new type)
func runSPS(bm *bondmachine.Bondmachine, input []string, delays bool, dataType string, measure bool) string {
	var sd *simbox.SimDelays
	if delays {
		sd = SharedDelays
	}
	if dataType == "" {
		dataType = "unsigned"
	}
	before := 0
	if measure {
		before = len(bmnumbers.AllTypes)
	}
	out, err := bm.SinglePipelineSimulate(dataType, input, sd)
	grew := 0
	if measure {
		grew = len(bmnumbers.AllTypes) - before
	}
	if err != nil {
		return fmt.Sprintf("error: %s registry+%d", err.Error(), grew)
	}
	return fmt.Sprintf("%q registry+%d", out, grew)
}

// ---------------------------------------------------------------- scenarios

// Spawner abstracts "run these callers concurrently and wait for all of them": gs.Go + gs.WaitGroup
// under the controlled scheduler, go + sync.WaitGroup in the race pass.
type Spawner func(fns ...func())

// Sim is one simulation of a scenario.
type Sim struct {
	Def   MachineDef
	Share int      // >0: use the *Bondmachine object of simulation Share-1 instead of building another one
	Rules []string // simbox rules for RunVM
	SPS   bool     // run SinglePipelineSimulate with Input instead of RunVM
	Input []string
	Delay bool // SPS only: pass the shared per-opcode delay table
	// SPS only: the data type the outputs are rendered with (default unsigned)
	DataType string
	// SPS only: every run of the scenario uses a dynamical type name no earlier run used (all simulations of
	// one run the same name), so that the concurrent simulations meet at the FIRST use of the type
	FreshType bool
}

// Scenario is a set of simulations run concurrently in one process (one = run alone).
type Scenario struct {
	Name      string
	Sims      []Sim
	Isolation bool // processors of Sims[0] are unconnected: each must behave as when run alone
	OpYield   bool // harness: make every opcode execution (the call of Opcode.Simulate) a scheduling point
	Ticks     [2]int
	Bound     [2]int // preemption bound quick / thorough
	Note      string
	// ColdStart: every run simulates a freshly loaded copy of the machine (see Reload)
	ColdStart bool
	// RaceOnly: executed by the free-running -race pass only (its observations differ from run to run by
	// construction, so it cannot be replayed under the controlled scheduler)
	RaceOnly bool
}

const (
	progA = "inc r0\nadd r1 r0\nj 0\n"
	progB = "rset r0 3\ninc r0\nr2o r0 o0\nj 1\n"
	progC = "inc r1\nr2o r1 o0\nj 0\n"
	// progD / progE: different opcode sets of the same size ({inc,j,r2o} / {dec,j,r2o}), so the two architectures
	// have the same word width and the SAME bit strings mean different instructions (opcode numbers are positions
	// in the name-sorted list)
	progD = "inc r0\nr2o r0 o0\nj 0\n"
	progE = "dec r0\nr2o r0 o0\nj 0\n"
)

const (
	progF  = "inc r0\nj 0\n"
	progF2 = "inc r1\nj 0\n"
	progG  = "rset r0 3\nj 0\n"
)

func withRsize(d MachineDef, rs uint8) MachineDef {
	d.Rsize = rs
	return d
}

func pipeProg(op string) string {
	// r1 := 3 ; r0 := 2 ; loop { r0 = r0 <op> r1 }  — the pipelined opcode needs two ticks
	return "rset r1 3\nrset r0 2\n" + op + " r0 r1\nj 2\n"
}

func pipeProgShort(op string) string {
	return op + " r0 r1\ninc r1\nj 0\n"
}

const spsProg = "i2rw r0 i0\ninc r0\nr2owa r0 o0\n"
const spsProgTwoOut = "i2rw r0 i0\nr2owa r0 o0\nr2owa r0 o1\n"
const spsProg2 = "i2rw r1 i0\ninc r1\ninc r1\nr2owa r1 o0\n"

// All returns the scenario list.
func All() []Scenario {
	one := func(d MachineDef, rules ...string) []Sim { return []Sim{{Def: d, Rules: rules}} }
	s := []Scenario{
		{Name: "indep3", Sims: one(Indep(progA, progB, progC)), Isolation: true, Ticks: [2]int{3, 4}, Bound: [2]int{2, 3},
			Note: "3 unconnected processors, inc/add/rset/r2o/j loops, no report configuration"},
		{Name: "indep2-opyield", Sims: one(Indep(progA, progB)), Isolation: true, OpYield: true, Ticks: [2]int{3, 4}, Bound: [2]int{2, 3},
			Note: "2 unconnected processors, every opcode execution is a scheduling point"},
		{Name: "indep2-showpc", Sims: one(Indep(progA, progB), "config:show_pc"), Isolation: true, Ticks: [2]int{3, 4}, Bound: [2]int{2, 4},
			Note: "2 unconnected processors with the show_pc rule: VM.Step returns per-processor report text"},
		{Name: "indep2-showdisasm", Sims: one(Indep(progB, progC), "config:show_pc", "config:show_disasm", "config:show_proc_regs_pre", "config:show_io_post"), Isolation: true, Ticks: [2]int{3, 4}, Bound: [2]int{2, 4},
			Note: "2 unconnected processors with pc/disasm/regs/io report rules"},
		{Name: "hetero2-showdisasm", Sims: one(Indep(progD, progE), "config:show_pc", "config:show_disasm"), Isolation: true, Ticks: [2]int{3, 4}, Bound: [2]int{2, 3},
			Note: "2 unconnected processors of DIFFERENT architectures with equal word width executing identical bit strings, disassembly shown"},
		{Name: "same-domain-cold-start", ColdStart: true, Sims: one(MachineDef{Procs: []Proc{{Prog: progD, M: 1}, {Prog: progD, M: 1}}, Outputs: 2, SameDomain: true,
			Bonds: [][2]string{{"o0", "p0o0"}, {"o1", "p1o0"}}}, "config:show_pc"), Isolation: false, Ticks: [2]int{3, 4}, Bound: [2]int{2, 3},
			Note: "2 processors that are instances of ONE domain, simulated on a machine that was just loaded from its saved form (nothing has used its objects before the workers do)"},
		// two / three processors whose step fails in the same tick (and one that works): what Step returns and
		// reports for such a tick is part of the trace and must not depend on which worker answers first
		{Name: "failing2", Sims: one(withRsize(Indep(progF, progF2, progG), 12), "config:show_pc"), Ticks: [2]int{2, 3}, Bound: [2]int{2, 3},
			Note: "12-bit registers: inc cannot be simulated, processors 0 and 1 fail in every tick, processor 2 works"},
		{Name: "pipe2-addp", Sims: one(Indep(pipeProgShort("addp"), pipeProgShort("addp"))), Isolation: true, OpYield: true, Ticks: [2]int{4, 5}, Bound: [2]int{2, 3},
			Note: "2 unconnected processors both executing addp (process-wide Addp singleton); opcode executions are scheduling points"},
		{Name: "pipe2-multp", Sims: one(Indep(pipeProg("multp"), pipeProg("multp"))), Isolation: true, OpYield: true, Ticks: [2]int{4, 5}, Bound: [2]int{2, 3},
			Note: "2 unconnected processors both executing multp; opcode executions are scheduling points"},
		{Name: "pipe2-divp", Sims: one(Indep(pipeProg("divp"), pipeProg("divp"))), Isolation: true, OpYield: true, Ticks: [2]int{4, 5}, Bound: [2]int{2, 3},
			Note: "2 unconnected processors both executing divp; opcode executions are scheduling points"},
		{Name: "pipe2-mixed", Sims: one(Indep(pipeProgShort("addp"), pipeProgShort("multp"))), Isolation: true, OpYield: true, Ticks: [2]int{4, 5}, Bound: [2]int{2, 3},
			Note: "addp on one processor, multp on the other (different singletons); opcode executions are scheduling points"},
		{Name: "prodcons", Sims: one(ProdCons(), "config:show_io_post"), Ticks: [2]int{4, 6}, Bound: [2]int{2, 4},
			Note: "producer (r2owa) -> bond -> consumer (i2rw, inc, r2owa) -> BM output"},
		{Name: "two-inputs-one-source", Sims: one(TwoInputsOneSource(), "config:show_io_post"), Ticks: [2]int{8, 10}, Bound: [2]int{1, 2},
			Note: "one output bonded to both inputs of a consumer that reads them back to back: two pending acknowledgements end at the same tick"},
		{Name: "prodcons-opyield", Sims: one(ProdCons()), OpYield: true, Ticks: [2]int{4, 5}, Bound: [2]int{2, 3},
			Note: "producer/consumer pair, every opcode execution is a scheduling point"},
		{Name: "twovm-same", Sims: []Sim{{Def: Indep(progB)}, {Def: Indep(progB), Share: 1}}, Ticks: [2]int{2, 3}, Bound: [2]int{2, 3},
			Note: "two caller goroutines simulate the SAME *Bondmachine object concurrently"},
		{Name: "twovm-diff", Sims: []Sim{{Def: Indep(progA), Rules: []string{"config:show_pc"}}, {Def: Indep(progC)}}, Ticks: [2]int{2, 3}, Bound: [2]int{2, 2},
			Note: "two caller goroutines simulate different machines concurrently"},
		{Name: "twovm-hetero-showdisasm", Sims: []Sim{{Def: Indep(progD), Rules: []string{"config:show_disasm"}}, {Def: Indep(progE), Rules: []string{"config:show_disasm"}}}, Ticks: [2]int{2, 3}, Bound: [2]int{2, 2},
			Note: "two concurrent simulations of machines of different architectures whose ROM words are the same bit strings, disassembly shown"},
		{Name: "twovm-pipe", Sims: []Sim{{Def: Indep(pipeProgShort("addp"))}, {Def: Indep(pipeProgShort("addp"))}}, Ticks: [2]int{2, 3}, Bound: [2]int{2, 3},
			Note: "two concurrent simulations of one-processor machines that both use addp"},
		{Name: "twosps-same", Sims: []Sim{{Def: InOut(spsProg), SPS: true, Input: []string{"5"}}, {Def: InOut(spsProg), Share: 1, SPS: true, Input: []string{"9"}}}, Bound: [2]int{1, 3},
			Note: "two concurrent SinglePipelineSimulate calls on the same machine, different stimuli (as cmd/simfinetune does)"},
		{Name: "twosps-diff", Sims: []Sim{{Def: InOut(spsProg), SPS: true, Input: []string{"5"}}, {Def: InOut(spsProg2), SPS: true, Input: []string{"7"}}}, Bound: [2]int{1, 2},
			Note: "two concurrent SinglePipelineSimulate calls on different machines"},
		{Name: "twosps-same-delays", Sims: []Sim{{Def: InOut(spsProg), SPS: true, Input: []string{"5"}, Delay: true}, {Def: InOut(spsProg), Share: 1, SPS: true, Input: []string{"9"}, Delay: true}}, Bound: [2]int{1, 2},
			Note: "two concurrent SinglePipelineSimulate calls sharing one machine and ONE per-opcode delay table (as cmd/simfinetune does)"},
		{Name: "twosps-diff-delays", Sims: []Sim{{Def: InOut(spsProg), SPS: true, Input: []string{"5"}, Delay: true}, {Def: InOut(spsProg2), SPS: true, Input: []string{"7"}, Delay: true}}, Bound: [2]int{1, 2},
			Note: "two concurrent SinglePipelineSimulate calls on different machines sharing one per-opcode delay table"},
		{Name: "twosps-dyntype-first-use", RaceOnly: true, Sims: []Sim{{Def: InOut2(spsProgTwoOut), SPS: true, Input: []string{"5"}, FreshType: true}, {Def: InOut2(spsProgTwoOut), SPS: true, Input: []string{"9"}, FreshType: true}}, Bound: [2]int{1, 1},
			Note: "two concurrent SinglePipelineSimulate calls that both show values in a dynamical number type nobody has used before (race pass only)"},
		{Name: "twosps-dyntype", Sims: []Sim{{Def: InOut2(spsProgTwoOut), SPS: true, Input: []string{"5"}, DataType: "fps8f4"}, {Def: InOut2(spsProgTwoOut), SPS: true, Input: []string{"9"}, DataType: "fps8f4"}}, Bound: [2]int{1, 2},
			Note: "two concurrent SinglePipelineSimulate calls on two-output machines showing values in a (registered) dynamical number type: the process-wide type registry is shared"},
	}
	return s
}

// ByName finds a scenario.
func ByName(n string) (Scenario, bool) {
	for _, s := range All() {
		if s.Name == n {
			return s, true
		}
	}
	return Scenario{}, false
}

// TickOverride > 0 replaces the tick count of every scenario (measurements, race pass).
var TickOverride int

// Built is a scenario with its (read-only) machines constructed.
// freshTypes: fixed point types not wider than the 8-bit registers of the scenario machines, none of them registered
// when the process starts (after the list is used up the names repeat: then it is an ordinary registered type)
var freshTypes = func() []string {
	var l []string
	for s := 3; s <= 8; s++ {
		for f := 1; f < s; f++ {
			if s == 8 && f == 4 {
				continue
			}
			l = append(l, fmt.Sprintf("fps%df%d", s, f))
		}
	}
	return l
}()

// globalRun numbers the runs of all scenarios of the process (fresh type names are per process)
var globalRun int64

type Built struct {
	Sc    Scenario
	BMs   []*bondmachine.Bondmachine
	T     int
	runNo int64
}

// Prepare builds the machines of the scenario once (they are inputs of the simulation; the
// simulator state — VMs, channels, goroutines — is rebuilt by every execution).
func Prepare(sc Scenario, thorough bool) *Built {
	b := &Built{Sc: sc, T: sc.Ticks[0]}
	if thorough {
		b.T = sc.Ticks[1]
	}
	if TickOverride > 0 {
		b.T = TickOverride
	}
	for _, s := range sc.Sims {
		if s.Share > 0 {
			b.BMs = append(b.BMs, b.BMs[s.Share-1])
		} else {
			b.BMs = append(b.BMs, s.Def.Build())
		}
	}
	return b
}

func (b *Built) runSim(i int) []string {
	s := b.Sc.Sims[i]
	prefix := ""
	if len(b.Sc.Sims) > 1 {
		prefix = fmt.Sprintf("sim%d ", i)
	}
	if s.SPS {
		if s.FreshType {
			n := atomic.LoadInt64(&b.runNo)
			runSPS(b.BMs[i], s.Input, s.Delay, freshTypes[int(n)%len(freshTypes)], false)
			return []string{prefix + "SPS done"}
		}
		return []string{prefix + "SPS " + RunSPS(b.BMs[i], s.Input, s.Delay, s.DataType)}
	}
	bm := b.BMs[i]
	if b.Sc.ColdStart {
		bm = Reload(bm)
	}
	return RunVM(bm, s.Rules, b.T).Lines(prefix)
}

// Run executes the scenario once, all its simulations concurrently, and returns the
// observation lines (simulation 0 first).  The opcode state is reset first.
func (b *Built) Run(spawn Spawner) []string {
	ResetOpcodeState()
	atomic.StoreInt64(&b.runNo, atomic.AddInt64(&globalRun, 1))
	res := make([][]string, len(b.Sc.Sims))
	if len(b.Sc.Sims) == 1 {
		res[0] = b.runSim(0)
	} else {
		fns := make([]func(), len(b.Sc.Sims))
		for i := range fns {
			i := i
			fns[i] = func() { res[i] = b.runSim(i) }
		}
		spawn(fns...)
	}
	var out []string
	for _, r := range res {
		out = append(out, r...)
	}
	return out
}

// Alone executes simulation i of the scenario alone (fresh opcode state, nothing else running).
func (b *Built) Alone(i int) []string {
	ResetOpcodeState()
	return b.runSim(i)
}

// SoloProc runs processor p of simulation 0 alone in a fresh one-processor machine and returns
// its per-tick digests.
func (b *Built) SoloProc(p int) []string {
	ResetOpcodeState()
	s := b.Sc.Sims[0]
	tr := RunVM(s.Def.Solo(p).Build(), s.Rules, b.T)
	var out []string
	for _, t := range tr {
		out = append(out, t.Procs[0])
	}
	return out
}

// OpAt names the opcode stored at program address pc of processor p of simulation sim.
func (b *Built) OpAt(sim, p int, pc uint64) string {
	m := b.BMs[sim].Domains[b.BMs[sim].Processors[p]]
	if int(pc) >= len(m.Program.Slocs) {
		return "halt"
	}
	id, err := m.Conproc.Decode_opcode(m.Program.Slocs[pc])
	if err != nil {
		return "unknown"
	}
	return m.Arch.Conproc.Op[id].Op_get_name()
}
