// C01 — generated processor HDL executes programs exactly as the ISA simulator does.
//
// Product-machine model checking: the generated Verilog of one processor (interpreted by vsim) and
// procbuilder.VM are run in lock-step with the ROM played by the environment: at every
// instruction-retire point the environment answers the fetch with ANY instruction word of a finite
// alphabet Σ(arch) (assembled by the real assembler). If pc, registers, RAM and outputs agree after
// every (reachable state, word) pair, they agree for every program over Σ (induction on the retire
// sequence). Counterexamples are straight-line programs (the BFS path).
package main

import (
	"encoding/json"
	"flag"
	"fmt"
	"os"
	"runtime"
	"sort"
	"strconv"
	"strings"
	"sync"
	"sync/atomic"
	"time"

	"verif/engines/vsim"
	"verif/engines/xs"
	"verif/lib/bmgen"
	"verif/lib/vlib"

	"github.com/BondMachineHQ/BondMachine/pkg/bondmachine"
	"github.com/BondMachineHQ/BondMachine/pkg/procbuilder"
)

type config struct {
	Spec     bmgen.ArchSpec `json:"spec"`
	Name     string         `json:"name"`
	Depth    int            `json:"depth"` // 0 = closure
	MaxSt    int            `json:"max_states"`
	Imm      string         `json:"imm"`    // "boundary" | "all"
	Inputs   []uint64       `json:"inputs"` // values offered on every input port
	Deadline time.Duration  `json:"-"`
}

// ---------------------------------------------------------------------------------------------

type hdl struct {
	sim          *vsim.Sim
	clk, rst     vsim.SigID
	env          vsim.SigID
	pc           vsim.SigID
	regs         []vsim.SigID
	mem          vsim.SigID
	hasMem       bool
	ins, outs    []vsim.SigID
	insValid     []vsim.SigID
	outsRecv     []vsim.SigID
	wordBits     int
	initialState []byte
}

func envRom(o, w int) string {
	ob := o - 1
	if ob < 0 {
		ob = 0
	}
	return fmt.Sprintf("module p0rom(input [%d:0] rom_bus, output [%d:0] rom_value);\n\treg [%d:0] envword;\n\tassign rom_value = envword;\nendmodule\n", ob, w-1, w-1)
}

var errNotSimulable = fmt.Errorf("not simulable")

func buildHDL(spec bmgen.ArchSpec, hwopt func(*bondmachine.Config)) (*hdl, *procbuilder.Machine, error) {
	m, err := bmgen.NewMachine(spec)
	if err != nil {
		return nil, nil, err
	}
	nloc := 1 << spec.O
	w := m.Arch.Max_word()
	m.Program.Slocs = make([]string, nloc)
	for i := range m.Program.Slocs {
		m.Program.Slocs[i] = strings.Repeat("0", w)
	}
	bm := bmgen.SingleBM(m)
	conf := new(bondmachine.Config)
	if hwopt != nil {
		hwopt(conf)
	}
	files, err := bmgen.RenderFiles(bm, conf, "iverilog")
	if err != nil {
		return nil, nil, fmt.Errorf("%w: render: %v", errNotSimulable, err)
	}
	files["p0rom.v"] = envRom(int(spec.O), w)
	delete(files, "bondmachine.v")
	d, diags := vsim.Parse(files)
	for _, dg := range diags {
		return nil, nil, fmt.Errorf("%w: %s %s:%d %s", errNotSimulable, dg.Class, dg.File, dg.Line, dg.Msg)
	}
	sim, err := d.Elaborate("a0", nil)
	if err != nil {
		return nil, nil, fmt.Errorf("%w: elaborate: %v", errNotSimulable, err)
	}
	h := &hdl{sim: sim, wordBits: w}
	look := func(n string) (vsim.SigID, error) {
		id, ok := sim.Lookup(n)
		if !ok {
			return 0, fmt.Errorf("%w: signal %s not found", errNotSimulable, n)
		}
		return id, nil
	}
	if h.clk, err = look("clock_signal"); err != nil {
		return nil, nil, err
	}
	if h.rst, err = look("reset_signal"); err != nil {
		return nil, nil, err
	}
	if h.env, err = look("p0rom_instance.envword"); err != nil {
		return nil, nil, err
	}
	if h.pc, err = look("p0_instance._pc"); err != nil {
		return nil, nil, err
	}
	for i := 0; i < 1<<spec.R; i++ {
		id, err := look("p0_instance._r" + strconv.Itoa(i))
		if err != nil {
			return nil, nil, err
		}
		h.regs = append(h.regs, id)
	}
	if spec.L > 0 {
		if h.mem, err = look("p0ram_instance.mem"); err != nil {
			return nil, nil, err
		}
		h.hasMem = true
	}
	for i := 0; i < int(spec.N); i++ {
		id, err := look("i" + strconv.Itoa(i))
		if err != nil {
			return nil, nil, err
		}
		h.ins = append(h.ins, id)
		v, err := look("i" + strconv.Itoa(i) + "_valid")
		if err != nil {
			return nil, nil, err
		}
		h.insValid = append(h.insValid, v)
	}
	for i := 0; i < int(spec.M); i++ {
		id, err := look("o" + strconv.Itoa(i))
		if err != nil {
			return nil, nil, err
		}
		h.outs = append(h.outs, id)
		v, err := look("o" + strconv.Itoa(i) + "_received")
		if err != nil {
			return nil, nil, err
		}
		h.outsRecv = append(h.outsRecv, v)
	}
	if err := sim.Init(); err != nil {
		return nil, nil, fmt.Errorf("%w: init: %v", errNotSimulable, err)
	}
	sim.Set(h.rst, 0)
	sim.Set(h.clk, 0)
	if err := sim.Posedge(h.rst); err != nil {
		return nil, nil, fmt.Errorf("%w: reset: %v", errNotSimulable, err)
	}
	sim.Posedge(h.clk)
	sim.Negedge(h.clk)
	sim.Negedge(h.rst)
	h.initialState = append([]byte{}, sim.StateKey(nil)...)
	return h, m, nil
}

func (h *hdl) clone() *hdl {
	n := *h
	n.sim = h.sim.Clone()
	return &n
}

func wordLimbs(w string) []uint64 {
	n := (len(w) + 63) / 64
	l := make([]uint64, n)
	for i := 0; i < len(w); i++ {
		if w[len(w)-1-i] == '1' {
			l[i/64] |= 1 << uint(i%64)
		}
	}
	return l
}

// ---------------------------------------------------------------------------------------------

type simSide struct {
	vm   *procbuilder.VM
	mach *procbuilder.Machine
}

func newSim(m *procbuilder.Machine) (*simSide, error) {
	mc := *m
	mc.Program.Slocs = append([]string{}, m.Program.Slocs...)
	vm := &procbuilder.VM{Mach: &mc}
	if err := vm.Init(); err != nil {
		return nil, err
	}
	return &simSide{vm, &mc}, nil
}

func u64(v interface{}) uint64 {
	switch x := v.(type) {
	case uint8:
		return uint64(x)
	case uint16:
		return uint64(x)
	case uint32:
		return uint64(x)
	case uint64:
		return x
	case nil:
		return 0
	}
	return ^uint64(0)
}

func boxed(rsize uint8, v uint64) interface{} {
	switch {
	case rsize <= 8:
		return uint8(v)
	case rsize <= 16:
		return uint16(v)
	case rsize <= 32:
		return uint32(v)
	}
	return v
}

// compact, canonical encoding of the simulator's architectural + private state
func (s *simSide) encode() string {
	var sb strings.Builder
	vm := s.vm
	fmt.Fprintf(&sb, "%d;", vm.Pc)
	for _, r := range vm.Registers {
		fmt.Fprintf(&sb, "%x,", u64(r))
	}
	sb.WriteString(";")
	for _, r := range vm.Memory {
		fmt.Fprintf(&sb, "%x,", u64(r))
	}
	sb.WriteString(";")
	for _, r := range vm.Outputs {
		fmt.Fprintf(&sb, "%x,", u64(r))
	}
	sb.WriteString(";")
	for _, b := range vm.OutputsValid {
		fmt.Fprintf(&sb, "%t,", b)
	}
	for _, b := range vm.InputsRecv {
		fmt.Fprintf(&sb, "%t,", b)
	}
	sb.WriteString(";")
	keys := make([]string, 0, len(vm.Extra_states))
	for k := range vm.Extra_states {
		keys = append(keys, k)
	}
	sort.Strings(keys)
	for _, k := range keys {
		fmt.Fprintf(&sb, "%s=%T:%v,", k, vm.Extra_states[k], vm.Extra_states[k])
	}
	fmt.Fprintf(&sb, ";%d;%d", vm.DelayCounter, len(vm.DeferredInstructions))
	return sb.String()
}

type simSnap struct {
	pc                 uint64
	regs, mem, outs    []interface{}
	outsValid, insRecv []bool
	extra              map[string]interface{}
	deferred           map[string]procbuilder.DeferredInstruction
	delay              int32
	lastPc             uint64
}

func (s *simSide) snap() *simSnap {
	vm := s.vm
	sn := &simSnap{pc: vm.Pc, delay: vm.DelayCounter, lastPc: vm.LastPc}
	sn.regs = append([]interface{}{}, vm.Registers...)
	sn.mem = append([]interface{}{}, vm.Memory...)
	sn.outs = append([]interface{}{}, vm.Outputs...)
	sn.outsValid = append([]bool{}, vm.OutputsValid...)
	sn.insRecv = append([]bool{}, vm.InputsRecv...)
	sn.extra = map[string]interface{}{}
	for k, v := range vm.Extra_states {
		sn.extra[k] = v
	}
	sn.deferred = map[string]procbuilder.DeferredInstruction{}
	for k, v := range vm.DeferredInstructions {
		sn.deferred[k] = v
	}
	return sn
}

func (s *simSide) restore(sn *simSnap) {
	vm := s.vm
	vm.Pc, vm.DelayCounter, vm.LastPc = sn.pc, sn.delay, sn.lastPc
	copy(vm.Registers, sn.regs)
	copy(vm.Memory, sn.mem)
	copy(vm.Outputs, sn.outs)
	copy(vm.OutputsValid, sn.outsValid)
	copy(vm.InputsRecv, sn.insRecv)
	vm.Extra_states = map[string]interface{}{}
	for k, v := range sn.extra {
		vm.Extra_states[k] = v
	}
	vm.DeferredInstructions = map[string]procbuilder.DeferredInstruction{}
	for k, v := range sn.deferred {
		vm.DeferredInstructions[k] = v
	}
}

// ---------------------------------------------------------------------------------------------

type letter struct {
	Asm  string
	Word string
	Op   string
	In   []uint64
}

func boundary(bits int) []uint64 {
	set := map[uint64]bool{}
	add := func(v uint64) {
		if bits >= 64 || v < 1<<uint(bits) {
			set[v] = true
		}
	}
	for _, v := range []uint64{0, 1, 2, 3} {
		add(v)
	}
	for _, b := range []int{bits - 1, bits} {
		if b <= 0 || b > 64 {
			continue
		}
		var p uint64
		if b == 64 {
			p = 0
		} else {
			p = 1 << uint(b)
		}
		add(p - 1)
		add(p - 2)
		if b < 64 {
			add(p)
		}
	}
	var l []uint64
	for v := range set {
		l = append(l, v)
	}
	sort.Slice(l, func(i, j int) bool { return l[i] < l[j] })
	return l
}

func alphabet(m *procbuilder.Machine, cfg config) []letter {
	spec := cfg.Spec
	var toks []string
	for i := 0; i < 1<<spec.R; i++ {
		toks = append(toks, "r"+strconv.Itoa(i))
	}
	for i := 0; i < int(spec.N); i++ {
		toks = append(toks, "i"+strconv.Itoa(i))
	}
	for i := 0; i < int(spec.M); i++ {
		toks = append(toks, "o"+strconv.Itoa(i))
	}
	nums := map[uint64]bool{}
	for _, v := range boundary(int(spec.Rsize)) {
		nums[v] = true
	}
	// ROM and RAM addresses: all of them up to 4 address bits, the boundary values (0,1,2, 2^k-1, 2^k, max) above
	small := func(bits uint8) {
		if bits <= 4 {
			for v := uint64(0); v < 1<<bits; v++ {
				nums[v] = true
			}
			return
		}
		for _, v := range boundary(int(bits)) {
			nums[v] = true
		}
	}
	small(spec.O)
	if spec.L > 0 {
		small(spec.L)
	}
	if cfg.Imm == "all" && spec.Rsize <= 8 {
		for v := uint64(0); v < 1<<spec.Rsize; v++ {
			nums[v] = true
		}
	}
	var nl []uint64
	for v := range nums {
		nl = append(nl, v)
	}
	sort.Slice(nl, func(i, j int) bool { return nl[i] < nl[j] })
	for _, v := range nl {
		toks = append(toks, strconv.FormatUint(v, 10))
	}
	var out []letter
	seen := map[string]bool{}
	try := func(op, line string) {
		w, err := func() (w string, err error) {
			defer func() {
				if p := recover(); p != nil {
					err = fmt.Errorf("panic")
				}
			}()
			return m.Arch.Assembler_process_line([]byte(line))
		}()
		if err != nil || w == "" || seen[w] {
			return
		}
		seen[w] = true
		out = append(out, letter{Asm: line, Word: w, Op: op})
	}
	for _, op := range m.Op {
		n := op.Op_get_name()
		try(n, n)
		for _, a := range toks {
			try(n, n+" "+a)
			for _, b := range toks {
				try(n, n+" "+a+" "+b)
			}
		}
	}
	return out
}

// ---------------------------------------------------------------------------------------------

type pstate struct {
	hk  string   // vsim state key
	sim *simSnap // simulator snapshot
	sk  string   // simulator canonical encoding
}

const horizon = 80 // max HDL clock cycles per instruction (longest multi-cycle opcode + slack)
const simSteps = 4 // max simulator Steps per instruction (pipelined opcodes take 2)

type worker struct {
	h *hdl
	s *simSide
}

type mismatch struct {
	class, detail string
}

func (w *worker) step(cfg config, st pstate, l letter) (next pstate, mm *mismatch, fatal error) {
	h, s := w.h, w.s
	if err := h.sim.RestoreKey([]byte(st.hk)); err != nil {
		return next, nil, err
	}
	s.restore(st.sim)
	// environment: instruction word and input port values
	if h.wordBits <= 64 {
		h.sim.Set(h.env, wordLimbs(l.Word)[0])
	} else {
		h.sim.SetWide(h.env, wordLimbs(l.Word))
	}
	for i, id := range h.ins {
		h.sim.Set(id, l.In[i])
		h.sim.Set(h.insValid[i], 0)
		s.vm.Inputs[i] = boxed(cfg.Spec.Rsize, l.In[i])
	}
	for _, id := range h.outsRecv {
		h.sim.Set(id, 0)
	}
	pc0 := h.sim.Get(h.pc)
	if uint64(s.vm.Pc) != pc0 {
		return next, &mismatch{"pc", fmt.Sprintf("before the instruction: hdl pc=%d sim pc=%d", pc0, s.vm.Pc)}, nil
	}
	hRet := false
	for c := 0; c < horizon; c++ {
		if err := h.sim.Posedge(h.clk); err != nil {
			return next, nil, err
		}
		if h.sim.Get(h.pc) != pc0 {
			hRet = true
			break
		}
	}
	s.mach.Program.Slocs[s.vm.Pc] = l.Word
	sRet := false
	for c := 0; c < simSteps; c++ {
		var err error
		func() {
			defer func() {
				if p := recover(); p != nil {
					err = fmt.Errorf("panic: %v", p)
				}
			}()
			_, err = s.vm.Step(nil)
		}()
		if err != nil {
			return next, &mismatch{"sim-error", err.Error()}, nil
		}
		if s.vm.Pc != pc0 {
			sRet = true
			break
		}
	}
	// canonicalise the environment-driven inputs before taking the key (outputs are read first)
	outv := make([]uint64, len(h.outs))
	for i, id := range h.outs {
		outv[i] = h.sim.Get(id)
	}
	for _, id := range h.ins {
		h.sim.Set(id, 0)
	}
	next = pstate{hk: string(h.sim.StateKey(nil)), sim: s.snap(), sk: s.encode()}
	if hRet != sRet {
		return next, &mismatch{"retire", fmt.Sprintf("hdl retired=%v (pc %d->%d) sim retired=%v (pc %d->%d)", hRet, pc0, h.sim.Get(h.pc), sRet, pc0, s.vm.Pc)}, nil
	}
	if hp := h.sim.Get(h.pc); hp != s.vm.Pc {
		return next, &mismatch{"pc", fmt.Sprintf("hdl pc=%d sim pc=%d", hp, s.vm.Pc)}, nil
	}
	for i, id := range h.regs {
		if hv, sv := h.sim.Get(id), u64(s.vm.Registers[i]); hv != sv {
			return next, &mismatch{"reg", fmt.Sprintf("r%d: hdl=%#x sim=%#x", i, hv, sv)}, nil
		}
	}
	if h.hasMem {
		for i := range s.vm.Memory {
			if hv, sv := h.sim.GetMem(h.mem, i), u64(s.vm.Memory[i]); hv != sv {
				return next, &mismatch{"mem", fmt.Sprintf("ram[%d]: hdl=%#x sim=%#x", i, hv, sv)}, nil
			}
		}
	}
	for i, id := range h.outs {
		_ = id
		if hv, sv := outv[i], u64(s.vm.Outputs[i]); hv != sv {
			return next, &mismatch{"out", fmt.Sprintf("o%d: hdl=%#x sim=%#x", i, hv, sv)}, nil
		}
	}
	return next, nil, nil
}

// divisorZero: the second register operand of `div rA rB` / `mod rA rB` holds 0 in this state
func divisorZero(st pstate, l letter) bool {
	f := strings.Fields(l.Asm)
	if len(f) != 3 || !strings.HasPrefix(f[2], "r") {
		return false
	}
	i, err := strconv.Atoi(f[2][1:])
	if err != nil || i >= len(st.sim.regs) {
		return false
	}
	return u64(st.sim.regs[i]) == 0
}

type result struct {
	cfg                        config
	states, transitions, depth int
	closed, capped             bool
	letters                    int
	notSimulable               string
	mismatches                 map[string]mmInfo // op|class -> first (shortest) example
	opsSeen                    map[string]int
}

type mmInfo struct {
	Op, Class, Detail string
	Program           []string
	Inputs            [][]uint64
}

func inputVectors(cfg config) [][]uint64 {
	n := int(cfg.Spec.N)
	if n == 0 {
		return [][]uint64{{}}
	}
	vals := cfg.Inputs
	if len(vals) == 0 {
		vals = []uint64{0}
	}
	// all inputs take the same value index shifted by port number (keeps the alphabet small but ports distinguishable)
	var out [][]uint64
	for k := range vals {
		v := make([]uint64, n)
		for i := range v {
			v[i] = vals[(k+i)%len(vals)]
		}
		out = append(out, v)
	}
	return out
}

func explore(cfg config, hwopt func(*bondmachine.Config)) result {
	res := result{cfg: cfg, mismatches: map[string]mmInfo{}, opsSeen: map[string]int{}}
	h0, m, err := buildHDL(cfg.Spec, hwopt)
	if err != nil {
		res.notSimulable = err.Error()
		return res
	}
	letters := alphabet(m, cfg)
	ivs := inputVectors(cfg)
	var sigma []letter
	readsInput := func(l letter) bool { return strings.Contains(l.Asm, " i") }
	for _, l := range letters {
		if readsInput(l) {
			for _, iv := range ivs {
				ll := l
				ll.In = iv
				sigma = append(sigma, ll)
			}
		} else {
			ll := l
			ll.In = ivs[0]
			sigma = append(sigma, ll)
		}
	}
	res.letters = len(sigma)
	lastPc := uint64(1<<cfg.Spec.O) - 1
	isJump := func(l letter) bool { return l.Op == "j" } // only the unconditional jump never falls through
	s0, err := newSim(m)
	if err != nil {
		res.notSimulable = "sim init: " + err.Error()
		return res
	}
	var pool sync.Pool
	pool.New = func() any {
		ss, _ := newSim(m)
		return &worker{h0.clone(), ss}
	}
	var mu sync.Mutex
	var cut atomic.Bool
	hardEnd := time.Now().Add(cfg.Deadline)
	var ex *xs.Explorer[pstate]
	ex = &xs.Explorer[pstate]{
		Key:       func(p pstate) string { return p.hk + "#" + p.sk },
		MaxDepth:  cfg.Depth,
		MaxStates: cfg.MaxSt,
		Deadline:  cfg.Deadline, // a configuration cut by it is reported as capped (exhaustive=false), never as a verdict
		Workers:   4,
		Succ: func(id int, st pstate) []xs.Edge[pstate] {
			if cfg.Deadline > 0 && time.Now().After(hardEnd) {
				// budget used up inside a batch (a batch of states × a large alphabet can take many minutes): the rest of
				// the batch is not expanded and the configuration is reported as cut
				cut.Store(true)
				return nil
			}
			w := pool.Get().(*worker)
			defer pool.Put(w)
			var out []xs.Edge[pstate]
			for li, l := range sigma {
				if st.sim.pc == lastPc && !isJump(l) {
					continue // a program never falls off the end of the ROM (assumption)
				}
				if (l.Op == "div" || l.Op == "mod" || l.Op == "divp") && divisorZero(st, l) {
					continue // x in hardware, panic in the simulator: not compared (assumption)
				}
				nx, mm, fatal := w.step(cfg, st, l)
				if fatal != nil {
					mm = &mismatch{"hdl-error", fatal.Error()}
				}
				mu.Lock()
				res.opsSeen[l.Op]++
				mu.Unlock()
				if mm != nil {
					k := l.Op + "|" + mm.class
					mu.Lock()
					if _, ok := res.mismatches[k]; !ok {
						info := mmInfo{Op: l.Op, Class: mm.class, Detail: mm.detail}
						for _, pl := range ex.Path(id) {
							i, _ := strconv.Atoi(pl)
							info.Program = append(info.Program, sigma[i].Asm)
							info.Inputs = append(info.Inputs, sigma[i].In)
						}
						info.Program = append(info.Program, l.Asm)
						info.Inputs = append(info.Inputs, l.In)
						res.mismatches[k] = info
					}
					mu.Unlock()
					continue // do not explore beyond a disagreement
				}
				out = append(out, xs.Edge[pstate]{Label: strconv.Itoa(li), Next: nx})
			}
			return out
		},
	}
	init := pstate{hk: string(h0.initialState), sim: s0.snap(), sk: s0.encode()}
	ex.Run(init)
	res.states, res.transitions, res.depth = ex.States, ex.Transitions, ex.Depth
	res.closed = ex.Closed() && !cut.Load()
	res.capped = ex.CapHit != "" || cut.Load()
	return res
}

// ---------------------------------------------------------------------------------------------

type coimplTable map[string][]int // opcode -> register sizes at which both back ends implement it

func loadCoimpl() coimplTable {
	b, err := os.ReadFile("/verif/checks/c01/coimpl.json")
	if err != nil {
		panic(err)
	}
	var t coimplTable
	if err := json.Unmarshal(b, &t); err != nil {
		panic(err)
	}
	return t
}

func (t coimplTable) opsAt(rsize int) []string {
	var l []string
	for op, ws := range t {
		for _, w := range ws {
			if w == rsize {
				l = append(l, op)
			}
		}
	}
	sort.Strings(l)
	return l
}

var survey = flag.Bool("survey", false, "run every static opcode alone (with rset and j) and print the disagreements (table maintenance)")
var surveyRsize = flag.Int("survey-rsize", 8, "register size for -survey")

func main() {
	run := vlib.Start("C01", "model_checking")
	vlib.SilenceStdout()
	if *survey {
		doSurvey(*surveyRsize)
		return
	}
	table := loadCoimpl()
	if run.Replay != "" {
		doReplay(run)
		return
	}
	var cfgs []config
	add := func(name string, spec bmgen.ArchSpec, depth, maxst int, imm string, inputs []uint64) {
		cfgs = append(cfgs, config{Spec: spec, Name: name, Depth: depth, MaxSt: maxst, Imm: imm, Inputs: inputs})
	}
	inVals := []uint64{0, 0xa5}
	for _, rs := range []int{8, 16, 32, 64} {
		ops := table.opsAt(rs)
		if len(ops) == 0 {
			continue
		}
		hasMemOps := false
		var noMem []string
		for _, o := range ops {
			if o == "r2m" || o == "m2r" {
				hasMemOps = true
			} else {
				noMem = append(noMem, o)
			}
		}
		_ = hasMemOps
		iv := []uint64{0, uint64(1)<<uint(rs-1) | 0x25}
		_ = inVals
		// full co-implemented set, 2 registers, 1 in / 1 out, RAM
		if run.Thorough() {
			add(fmt.Sprintf("full-rs%d-R1", rs), bmgen.ArchSpec{Rsize: uint8(rs), R: 1, N: 1, M: 1, L: 1, O: 2, Ops: ops}, 0, 400000, "boundary", iv)
			add(fmt.Sprintf("full-rs%d-R2", rs), bmgen.ArchSpec{Rsize: uint8(rs), R: 2, N: 2, M: 2, L: 2, O: 3, Ops: ops}, 3, 300000, "boundary", iv)
		} else {
			add(fmt.Sprintf("full-rs%d-R1", rs), bmgen.ArchSpec{Rsize: uint8(rs), R: 1, N: 1, M: 1, L: 1, O: 2, Ops: ops}, 3, 60000, "boundary", iv)
		}
		// every opcode alone with rset and j (changes opcode numbering and word width)
		if run.Thorough() || rs == 8 {
			for _, op := range ops {
				set := []string{op, "rset", "j"}
				l := uint8(0)
				if op == "r2m" || op == "m2r" {
					l = 2
				}
				d := 3
				if run.Thorough() {
					d = 4
				}
				var n, mo uint8
				if op == "i2r" || op == "addi" {
					n = 1
				}
				if op == "r2o" {
					mo = 1
				}
				add(fmt.Sprintf("alone-%s-rs%d", op, rs), bmgen.ArchSpec{Rsize: uint8(rs), R: 1, N: n, M: mo, L: l, O: 2, Ops: set}, d, 100000, "boundary", iv)
			}
		}
	}
	// words wider than the register-carrying instructions: with O > R+Rsize the jumps are the longest instructions
	// and every other instruction is left-aligned in a wider ROM word (its fields no longer end at bit 0)
	{
		ops := table.opsAt(8)
		if run.Thorough() {
			add("wideword-rs8-R1-O11", bmgen.ArchSpec{Rsize: 8, R: 1, N: 1, M: 1, L: 1, O: 11, Ops: ops}, 3, 300000, "boundary", []uint64{0, 0xa5})
			add("wideword-rs8-R2-O13", bmgen.ArchSpec{Rsize: 8, R: 2, N: 2, M: 2, L: 2, O: 13, Ops: ops}, 2, 300000, "boundary", []uint64{0, 0xa5})
			// (no rs16 configuration with O > 16: Rom.Write_verilog builds its 2^O-line case statement by string
			// concatenation, quadratic in 2^O — at O = 20 rendering alone outlasts every budget)
		} else {
			add("wideword-rs8-R1-O11", bmgen.ArchSpec{Rsize: 8, R: 1, N: 1, M: 1, L: 1, O: 11, Ops: ops}, 3, 60000, "boundary", []uint64{0, 0xa5})
		}
	}
	// port shapes whose input and output selectors have different widths (1-2 ports need one selector bit, 3-4 two,
	// 5 three): every port index of both kinds is used by the alphabet
	{
		io := []string{"rset", "i2r", "r2o", "inc", "cpy", "j"}
		shapes := [][2]uint8{{1, 3}, {3, 1}, {2, 5}, {5, 2}}
		if run.Thorough() {
			shapes = append(shapes, [2]uint8{1, 4}, [2]uint8{4, 1}, [2]uint8{3, 5}, [2]uint8{1, 9})
		}
		for _, sh := range shapes {
			add(fmt.Sprintf("ioshape-N%d-M%d", sh[0], sh[1]), bmgen.ArchSpec{Rsize: 8, R: 1, N: sh[0], M: sh[1], L: 0, O: 2, Ops: io}, 3, 60000, "boundary", []uint64{0, 0xa5})
		}
		add("ioshape-full-N1-M3", bmgen.ArchSpec{Rsize: 8, R: 1, N: 1, M: 3, L: 1, O: 2, Ops: table.opsAt(8)}, 2, 60000, "boundary", []uint64{0, 0xa5})
		add("ioshape-full-N3-M1", bmgen.ArchSpec{Rsize: 8, R: 1, N: 3, M: 1, L: 1, O: 2, Ops: table.opsAt(8)}, 2, 60000, "boundary", []uint64{0, 0xa5})
	}
	// closure at Rsize 8: every register value reachable through rset with all 256 immediates
	{
		ops := []string{}
		for _, o := range table.opsAt(8) {
			if o != "r2m" && o != "m2r" {
				ops = append(ops, o)
			}
		}
		if run.Thorough() {
			add("closure-rs8-R1-allimm", bmgen.ArchSpec{Rsize: 8, R: 1, N: 1, M: 1, L: 0, O: 1, Ops: ops}, 0, 3000000, "all", []uint64{0, 0xa5})
		} else {
			add("closure-rs8-R1-arith", bmgen.ArchSpec{Rsize: 8, R: 1, N: 0, M: 0, L: 0, O: 1, Ops: []string{"rset", "add", "inc", "dec", "cpy", "j"}}, 0, 300000, "boundary", nil)
		}
	}
	// one wall-clock budget for the whole configuration list (4 / 40 min): every configuration gets what is left of it
	// when it starts (at least one minute); a configuration cut by it is reported as capped (exhaustive=false)
	globalEnd := time.Now().Add(4 * time.Minute)
	if run.Thorough() {
		globalEnd = time.Now().Add(40 * time.Minute)
	}
	if v, err := strconv.Atoi(os.Getenv("C01_BUDGET_MIN")); err == nil && v > 0 {
		globalEnd = time.Now().Add(time.Duration(v) * time.Minute)
	}
	results := make([]result, len(cfgs))
	var wg sync.WaitGroup
	sem := make(chan struct{}, runtime.NumCPU())
	for i := range cfgs {
		wg.Add(1)
		sem <- struct{}{}
		go func(i int) {
			defer wg.Done()
			defer func() { <-sem }()
			cfgs[i].Deadline = time.Until(globalEnd)
			if cfgs[i].Deadline < time.Minute {
				cfgs[i].Deadline = time.Minute
			}
			results[i] = explore(cfgs[i], nil)
		}(i)
	}
	wg.Wait()
	hwoptResults := hwOptCheck(run, table)
	run.Set("rom_data_programs", romDataCheck(run))
	allClosed, anyCapped := true, false
	var per []map[string]any
	notSim := 0
	for _, r := range results {
		run.Add("states", r.states)
		run.Add("transitions", r.transitions)
		run.Add("traces_validated_against_impl", r.transitions)
		if r.notSimulable != "" {
			notSim++
			fmt.Fprintf(os.Stderr, "note: %s not simulable: %s\n", r.cfg.Name, r.notSimulable)
		}
		if !r.closed {
			allClosed = false
		}
		if r.capped {
			anyCapped = true
		}
		per = append(per, map[string]any{"config": r.cfg.Name, "states": r.states, "transitions": r.transitions, "alphabet": r.letters,
			"depth": r.depth, "closed": r.closed, "cap_hit": r.capped, "not_simulable": r.notSimulable != ""})
		keys := make([]string, 0, len(r.mismatches))
		for k := range r.mismatches {
			keys = append(keys, k)
		}
		sort.Strings(keys)
		for _, k := range keys {
			mm := r.mismatches[k]
			run.Report(fmt.Sprintf("C01|%s|%s|rs%d", mm.Op, mm.Class, r.cfg.Spec.Rsize),
				fmt.Sprintf("[%s] program `%s`: %s", r.cfg.Name, strings.Join(mm.Program, "; "), mm.Detail),
				map[string]any{"config": r.cfg, "program": mm.Program, "inputs": mm.Inputs})
		}
		if len(r.mismatches) == 0 && r.states > 1 && r.cfg.Depth == 0 {
			run.Sample(fmt.Sprintf("%s: closure reached, %d states, %d transitions, |Σ|=%d", r.cfg.Name, r.states, r.transitions, r.letters))
		}
	}
	run.Set("configurations", per)
	run.Set("configurations_not_simulable", notSim)
	run.Set("hw_optimisation_programs", hwoptResults)
	// exhaustive = no configuration was cut by the state cap or the wall-clock budget (depth-bounded configurations are
	// complete within their declared depth)
	run.Set("exhaustive", !anyCapped)
	run.Set("all_closed", allClosed)
	run.Set("coimplemented_table", table)
	run.Sample("transition = (reachable product state, instruction word from Σ, input vector): e.g. state after `rset r0 255; inc r0` then word `add r0 r1`")
	run.Assume("2-state, zero-delay, single-clock interpretation of the generated Verilog by /verif/engines/vsim")
	run.Assume("co-implemented set S is the table checks/c01/coimpl.json (opcodes whose Simulate implements the operation at that register size); handshaked IO opcodes are decided in C04/C02")
	run.Assume("programs do not fall off the end of the ROM (the simulator halts, the HDL wraps): at the last address only jumps are offered")
	run.Assume("division/modulo by zero is not compared: the Verilog result is x, the simulator panics")
	run.Assume("input ports hold the offered value for the whole instruction; valid/received lines are 0 (non-handshaked IO only)")
	run.Finish()
}

func doSurvey(rsize int) {
	var names []string
	for _, op := range procbuilder.Allopcodes {
		names = append(names, op.Op_get_name())
	}
	sort.Strings(names)
	type row struct {
		op  string
		res result
	}
	rows := make([]row, len(names))
	var wg sync.WaitGroup
	sem := make(chan struct{}, runtime.NumCPU())
	for i, n := range names {
		wg.Add(1)
		sem <- struct{}{}
		go func(i int, n string) {
			defer wg.Done()
			defer func() { <-sem }()
			set := []string{n, "rset", "j", "i2r", "r2o"}
			if n == "m2r" || n == "m2rri" {
				set = append(set, "r2m")
			}
			cfg := config{Spec: bmgen.ArchSpec{Rsize: uint8(rsize), R: 1, N: 1, M: 1, L: 2, O: 2, Ops: set}, Name: n, Depth: 3, MaxSt: 50000, Imm: "boundary",
				Inputs: []uint64{0, uint64(1)<<uint(rsize-1) | 0x25}}
			rows[i] = row{n, explore(cfg, nil)}
		}(i, n)
	}
	wg.Wait()
	for _, r := range rows {
		if r.res.notSimulable != "" {
			fmt.Fprintf(vlib.Out, "%-8s NOT-SIMULABLE %s\n", r.op, r.res.notSimulable)
			continue
		}
		var ks []string
		for k := range r.res.mismatches {
			ks = append(ks, k)
		}
		sort.Strings(ks)
		status := "AGREE"
		if len(ks) > 0 {
			status = "DISAGREE"
		}
		fmt.Fprintf(vlib.Out, "%-8s %s states=%d trans=%d uses=%d\n", r.op, status, r.res.states, r.res.transitions, r.res.opsSeen[r.op])
		for _, k := range ks {
			mm := r.res.mismatches[k]
			fmt.Fprintf(vlib.Out, "         %s: `%s` in=%v: %s\n", k, strings.Join(mm.Program, "; "), mm.Inputs[len(mm.Inputs)-1], mm.Detail)
		}
	}
}

func doReplay(run *vlib.Run) {
	var kind struct {
		Kind string   `json:"kind"`
		Body []string `json:"body"`
	}
	if _, err := vlib.LoadReplay(run.Replay, &kind); err == nil && kind.Kind == "hwopt" {
		r := hwOne(kind.Body)
		fmt.Fprintf(vlib.Out, "program %v: skipped=%q mismatch=%q pruned=%v\n", kind.Body, r.skipped, r.mismatch, r.prunedArms)
		return
	}
	var rp struct {
		Config  config     `json:"config"`
		Program []string   `json:"program"`
		Inputs  [][]uint64 `json:"inputs"`
	}
	if _, err := vlib.LoadReplay(run.Replay, &rp); err != nil {
		panic(err)
	}
	h, m, err := buildHDL(rp.Config.Spec, nil)
	if err != nil {
		fmt.Fprintln(vlib.Out, "not simulable:", err)
		return
	}
	s, _ := newSim(m)
	w := &worker{h, s}
	st := pstate{hk: string(h.initialState), sim: s.snap(), sk: s.encode()}
	for i, line := range rp.Program {
		word, err := m.Arch.Assembler_process_line([]byte(line))
		if err != nil {
			fmt.Fprintln(vlib.Out, "assemble:", err)
			return
		}
		in := []uint64{}
		if i < len(rp.Inputs) {
			in = rp.Inputs[i]
		}
		for len(in) < int(rp.Config.Spec.N) {
			in = append(in, 0)
		}
		nx, mm, fatal := w.step(rp.Config, st, letter{Asm: line, Word: word, In: in})
		fmt.Fprintf(vlib.Out, "step %d `%s` in=%v: sim %s\n", i, line, in, nx.sk)
		if fatal != nil {
			fmt.Fprintln(vlib.Out, "hdl error:", fatal)
			return
		}
		if mm != nil {
			fmt.Fprintf(vlib.Out, "  MISMATCH %s: %s\n", mm.class, mm.detail)
			run.Report("C01|replay|"+mm.class, mm.detail, rp)
			break
		}
		st = nx
	}
	run.Set("states", len(rp.Program)+1)
	run.Set("transitions", len(rp.Program))
	run.Set("traces_validated_against_impl", len(rp.Program))
	run.Finish()
}
