package main

// C01, second sentence: "Enabling a hardware optimisation that was derived from the program never
// changes that behaviour." The optimisations (OnlyDestRegs / OnlySrcRegs) prune case arms using the
// requirement tree the assembler derives from the program, so the space here is PROGRAMS: all
// programs of a bounded size over a small instruction alphabet go through the real basm pipeline;
// the machine is rendered twice through the real generators (plain, and with both optimisations and
// the program's own requirement tree) and both file sets are executed under vsim: pc, every
// register and every output must be identical after every clock cycle.

import (
	"fmt"
	"runtime"
	"strings"
	"sync"

	"verif/engines/vsim"
	"verif/lib/bmgen"
	"verif/lib/bmsys"
	"verif/lib/vlib"

	"github.com/BondMachineHQ/BondMachine/pkg/basm"
	"github.com/BondMachineHQ/BondMachine/pkg/bminfo"
	"github.com/BondMachineHQ/BondMachine/pkg/bmreqs"
	"github.com/BondMachineHQ/BondMachine/pkg/bondmachine"
	"github.com/BondMachineHQ/BondMachine/pkg/procbuilder"
)

func hwProgram(body []string) string {
	var sb strings.Builder
	sb.WriteString("%section prog .romtext iomode:async\n\tentry _start\n_start:\n")
	for _, l := range body {
		sb.WriteString("\t" + l + "\n")
	}
	sb.WriteString("\tr2o r0, o0\n\tr2o r1, o1\n\tj _start\n%endsection\n\n%meta cpdef p0 romcode: prog, ramsize:8\n")
	sb.WriteString("%meta ioatt l0 cp: p0, index:0, type:output\n%meta ioatt l0 cp: bm, index:0, type:output\n")
	sb.WriteString("%meta ioatt l1 cp: p0, index:1, type:output\n%meta ioatt l1 cp: bm, index:1, type:output\n")
	sb.WriteString("%meta bmdef global registersize:8\n")
	return sb.String()
}

func assemble(src string) (bm *bondmachine.Bondmachine, reqs bmreqs.ExportedReqs, err error) {
	defer func() {
		if p := recover(); p != nil {
			err = fmt.Errorf("panic: %v", p)
		}
	}()
	bi := new(basm.BasmInstance)
	bi.BMinfo = new(bminfo.BMinfo)
	bi.BasmInstanceInit(nil)
	if err = bi.ParseAssemblyStringDefault(src); err != nil {
		return
	}
	if err = bi.RunAssembler(); err != nil {
		return
	}
	if err = bi.Assembler2BondMachine(); err != nil {
		return
	}
	return bi.GetBondMachine(), bi.DumpRequirements(), nil
}

type hwSide struct {
	sim      *vsim.Sim
	clk, rst vsim.SigID
	obs      []vsim.SigID
	names    []string
}

func elaborateSet(files map[string]string, nregs int) (*hwSide, error) {
	d, diags := vsim.Parse(files)
	for _, dg := range diags {
		return nil, fmt.Errorf("%s %s:%d %s", dg.Class, dg.File, dg.Line, dg.Msg)
	}
	sim, err := d.Elaborate("bondmachine", nil)
	if err != nil {
		return nil, err
	}
	h := &hwSide{sim: sim}
	var ok bool
	if h.clk, ok = sim.Lookup("clk"); !ok {
		return nil, fmt.Errorf("no clk")
	}
	if h.rst, ok = sim.Lookup("reset"); !ok {
		return nil, fmt.Errorf("no reset")
	}
	names := []string{"a0_inst.p0_instance._pc", "o0", "o1"}
	for r := 0; r < nregs; r++ {
		names = append(names, fmt.Sprintf("a0_inst.p0_instance._r%d", r))
	}
	for _, n := range names {
		id, ok := sim.Lookup(n)
		if !ok {
			return nil, fmt.Errorf("signal %s missing", n)
		}
		h.obs = append(h.obs, id)
		h.names = append(h.names, n)
	}
	if err := sim.Init(); err != nil {
		return nil, err
	}
	sim.Set(h.rst, 0)
	sim.Set(h.clk, 0)
	sim.Posedge(h.rst)
	sim.Posedge(h.clk)
	sim.Negedge(h.clk)
	sim.Negedge(h.rst)
	return h, nil
}

type hwResult struct {
	src               string
	skipped, mismatch string
	prunedArms        bool
}

func hwOne(body []string) hwResult {
	src := hwProgram(body)
	res := hwResult{src: src}
	bm1, reqs, err := assemble(src)
	if err != nil {
		res.skipped = "assembler: " + err.Error()
		return res
	}
	bm2, _, err := assemble(src)
	if err != nil {
		res.skipped = "assembler (2nd): " + err.Error()
		return res
	}
	plain, err := bmgen.RenderFiles(bm1, new(bondmachine.Config), "iverilog")
	if err != nil {
		res.skipped = "render: " + err.Error()
		return res
	}
	rg, err := bmreqs.Import(&reqs)
	if err != nil {
		res.skipped = "requirements import: " + err.Error()
		return res
	}
	defer rg.Close()
	conf := new(bondmachine.Config)
	conf.ReqRoot = rg
	conf.HwOptimizations = procbuilder.SetHwOptimization(procbuilder.SetHwOptimization(0, procbuilder.HwOptimizations(procbuilder.OnlyDestRegs)), procbuilder.HwOptimizations(procbuilder.OnlySrcRegs))
	opt, err := bmgen.RenderFiles(bm2, conf, "iverilog")
	if err != nil {
		res.skipped = "render (optimised): " + err.Error()
		return res
	}
	res.prunedArms = len(opt["p0.v"]) < len(plain["p0.v"])
	nregs := 1 << bm1.Domains[0].R
	a, err := elaborateSet(plain, nregs)
	if err != nil {
		res.skipped = "plain HDL not simulable: " + err.Error()
		return res
	}
	b, err := elaborateSet(opt, nregs)
	if err != nil {
		// the plain file set simulates and the optimised one does not: the optimisation broke the HDL
		res.mismatch = "optimised HDL does not elaborate: " + err.Error()
		return res
	}
	for c := 0; c < 48; c++ {
		if err := a.sim.Posedge(a.clk); err != nil {
			res.skipped = err.Error()
			return res
		}
		if err := b.sim.Posedge(b.clk); err != nil {
			res.mismatch = "optimised HDL fails at cycle " + fmt.Sprint(c) + ": " + err.Error()
			return res
		}
		for i := range a.obs {
			if va, vb := a.sim.Get(a.obs[i]), b.sim.Get(b.obs[i]); va != vb {
				res.mismatch = fmt.Sprintf("cycle %d: %s = %d without the optimisation, %d with it", c, a.names[i], va, vb)
				return res
			}
		}
	}
	return res
}

func hwOptCheck(run *vlib.Run, table coimplTable) []map[string]any {
	regs := []string{"r0", "r1", "r2"}
	var alpha []string
	for _, r := range regs {
		alpha = append(alpha, "rset "+r+", 3", "inc "+r, "dec "+r, "clr "+r)
		for _, s := range regs {
			alpha = append(alpha, "add "+r+", "+s, "cpy "+r+", "+s)
		}
	}
	alpha = append(alpha, "rset r0, 200", "jz r1, _start", "jz r2, _start", "nop")
	var progs [][]string
	for _, a := range alpha {
		progs = append(progs, []string{a})
		for _, b := range alpha {
			progs = append(progs, []string{a, b})
		}
	}
	if run.Thorough() {
		small := []string{"rset r0, 3", "rset r2, 1", "inc r1", "inc r2", "add r0, r2", "add r1, r0", "cpy r2, r0", "cpy r1, r2", "dec r0", "jz r2, _start", "clr r1"}
		for _, a := range small {
			for _, b := range small {
				for _, c := range small {
					progs = append(progs, []string{a, b, c})
				}
			}
		}
	}
	results := make([]hwResult, len(progs))
	var wg sync.WaitGroup
	ch := make(chan int)
	for w := 0; w < runtime.NumCPU(); w++ {
		wg.Add(1)
		go func() {
			defer wg.Done()
			for i := range ch {
				results[i] = hwOne(progs[i])
			}
		}()
	}
	for i := range progs {
		ch <- i
	}
	close(ch)
	wg.Wait()
	compared, pruned, skipped := 0, 0, 0
	skipWhy := map[string]int{}
	for i, r := range results {
		if r.skipped != "" {
			skipped++
			k := r.skipped
			if len(k) > 60 {
				k = k[:60]
			}
			skipWhy[k]++
			continue
		}
		compared++
		if r.prunedArms {
			pruned++
		}
		if r.mismatch != "" {
			run.Report("C01|hw-optimisation|behaviour-changes", fmt.Sprintf("program `%s; r2o r0,o0; r2o r1,o1; j _start`: %s", strings.Join(progs[i], "; "), r.mismatch),
				map[string]any{"kind": "hwopt", "body": progs[i]})
		}
	}
	run.Add("states", compared)
	run.Add("transitions", compared*48)
	run.Add("traces_validated_against_impl", compared*2)
	return []map[string]any{{"programs": len(progs), "compared_cycle_by_cycle": compared, "with_pruned_case_arms": pruned, "skipped": skipped, "skip_reasons": skipWhy}}
}

// ---------------------------------------------------------------------------------------------------------------
// C01, "with its ROM": the product machine above plays the ROM itself, so the generated ROM file is never read there.
// Here whole programs WITH a ROM data section go through the real basm pipeline, the complete generated file set
// (processor, real ROM with code followed by data) runs under vsim and the same machine on the Go simulator; both
// are sampled after every clock / tick and the sequences of distinct (o0, o1) values must be the same.

func romDataProgram(code []string, data []string) string {
	var sb strings.Builder
	sb.WriteString("%section prog .romtext iomode:async\n\tentry _start\n_start:\n")
	for _, l := range code {
		sb.WriteString("\t" + l + "\n")
	}
	sb.WriteString("hl:\n\tj hl\n%endsection\n\n%section consts .romdata\n")
	for _, l := range data {
		sb.WriteString("\t" + l + "\n")
	}
	sb.WriteString("%endsection\n\n%meta cpdef p0 romcode: prog, romdata: consts\n")
	sb.WriteString("%meta ioatt l0 cp: p0, index:0, type:output\n%meta ioatt l0 cp: bm, index:0, type:output\n")
	sb.WriteString("%meta ioatt l1 cp: p0, index:1, type:output\n%meta ioatt l1 cp: bm, index:1, type:output\n")
	sb.WriteString("%meta bmdef global registersize:8\n")
	return sb.String()
}

func distinctSeq(seq [][2]uint64) [][2]uint64 {
	var out [][2]uint64
	for _, v := range seq {
		if len(out) == 0 || out[len(out)-1] != v {
			out = append(out, v)
		}
	}
	return out
}

func romDataCheck(run *vlib.Run) map[string]any {
	datas := [][]string{
		{"tab db 0x11, 0x22, 0x33"},
		{"one db 0x2a", "tab db 0x11, 0x22, 0x33", "last db 0x7f"},
		{"tab db 0x05", "more db 0xa5, 0x3c"},
	}
	codes := [][]string{
		{"mov r1, rom:tab", "mov r0, rom:[r1]", "r2o r0, o0"},
		{"mov r1, rom:tab", "mov r0, rom:[r1]", "r2o r0, o0", "inc r1", "mov r2, rom:[r1]", "r2o r2, o1"},
		{"rset r3, 9", "mov r1, rom:tab", "inc r1", "mov r0, rom:[r1]", "r2o r0, o1", "r2o r3, o0"},
		{"mov r0, rom:tab", "r2o r0, o0", "mov r1, rom:tab", "mov r2, rom:[r1]", "r2o r2, o1"},
	}
	compared, skipped := 0, 0
	skipWhy := map[string]int{}
	for ci, code := range codes {
		for di, data := range datas {
			src := romDataProgram(code, data)
			name := fmt.Sprintf("code %d / data %d", ci, di)
			bm, _, err := assemble(src)
			if err != nil {
				skipped++
				skipWhy["assembler: "+err.Error()]++
				continue
			}
			files, err := bmgen.RenderFiles(bm, new(bondmachine.Config), "iverilog")
			if err != nil {
				skipped++
				skipWhy["render: "+err.Error()]++
				continue
			}
			h, err := elaborateSet(files, 1<<bm.Domains[0].R)
			if err != nil {
				run.Report("C01|rom-data|hdl-not-simulable", fmt.Sprintf("%s: the generated file set of a program with ROM data does not run: %v", name, err), map[string]any{"kind": "romdata", "source": src})
				continue
			}
			var hseq [][2]uint64
			bad := false
			for c := 0; c < 400 && !bad; c++ {
				if err := h.sim.Posedge(h.clk); err != nil {
					run.Report("C01|rom-data|hdl-not-simulable", fmt.Sprintf("%s: %v", name, err), map[string]any{"kind": "romdata", "source": src})
					bad = true
				}
				hseq = append(hseq, [2]uint64{h.sim.Get(h.obs[1]), h.sim.Get(h.obs[2])})
			}
			if bad {
				continue
			}
			s, err := bmsys.NewSIM(bm, true)
			if err != nil {
				skipped++
				skipWhy["simulator: "+err.Error()]++
				continue
			}
			var sseq [][2]uint64
			for t := 0; t < 120 && !bad; t++ {
				if err := s.Step(); err != nil {
					skipped++
					skipWhy["simulator step: "+err.Error()]++
					bad = true
				}
				sseq = append(sseq, [2]uint64{bmsys.U64(s.VM.Outputs_regs[0]), bmsys.U64(s.VM.Outputs_regs[1])})
			}
			s.VM.Stop()
			if bad {
				continue
			}
			compared++
			hd, sd := distinctSeq(hseq), distinctSeq(sseq)
			if fmt.Sprint(hd) != fmt.Sprint(sd) {
				run.Report("C01|rom-data|output-history-differs", fmt.Sprintf("%s: the (o0,o1) values over time are %v on the generated hardware (real ROM) and %v on the simulator; program `%s`, data `%s`",
					name, hd, sd, strings.Join(code, "; "), strings.Join(data, "; ")), map[string]any{"kind": "romdata", "source": src})
			}
		}
	}
	run.Add("states", compared)
	run.Add("transitions", compared*520)
	run.Add("traces_validated_against_impl", compared*2)
	return map[string]any{"programs": len(codes) * len(datas), "compared": compared, "skipped": skipped, "skip_reasons": skipWhy}
}
