package main

import "verif/lib/vlib"

// hwOptCheck: program-derived hardware optimisations (OnlyDestRegs/OnlySrcRegs) — see hwopt_basm.go
// once the BASM pipeline driver exists. Returns a per-program summary for the evidence.
func hwOptCheck(run *vlib.Run, table coimplTable) []map[string]any {
	return nil
}
