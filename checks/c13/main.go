// C13 - generated stacks and queues never lose, duplicate or reorder an element.
//
// For every configuration the real template (pkg/bmstack/stackfile.go through BmStack.WriteHDL, directly or through the
// shared-object / thread-stack / dynamic-opcode generators that embed it) is rendered, parsed and elaborated by vsim, and
// the closed system  module x protocol-abiding agents x abstract sequence  is explored to closure with xs (BFS, so
// counterexamples are shortest). Safety is checked on every transition, bounded response on the stored graph.
package main

import (
	"fmt"
	"os"
	"runtime"
	"runtime/pprof"
	"sort"
	"strings"
	"sync"

	"verif/engines/xs"
	"verif/lib/vlib"
)

type cfgResult struct {
	Spec        spec
	Name        string
	States      int
	Transitions int
	Depth       int
	Closed      bool
	Cap         string
	MaxStates   int
	Bounds      map[string]int
	Err         string
	ResetIssues []string
	Viols       map[string]*viol
	m           *model
}

type replayObj struct {
	Spec   spec     `json:"spec"`
	Labels []string `json:"inputs"`
	Cycle  []string `json:"loop,omitempty"`
	Agent  string   `json:"agent,omitempty"`
	Trace  []string `json:"trace,omitempty"`
}

func alphabet(sp spec, m *model) int {
	a := 1
	for range m.senders {
		if sp.FreeData {
			a *= 2 * len(m.domain)
		} else {
			a *= 1 + len(m.domain)
		}
	}
	for range m.recvs {
		a *= 2
	}
	return a
}

func runConfig(sp spec, stateCap, edgeCap, workers int) *cfgResult {
	res := &cfgResult{Spec: sp, Name: sp.name(), Bounds: map[string]int{}}
	m, err := newModel(sp)
	if err != nil {
		res.Err = err.Error()
		return res
	}
	res.m = m
	init, problems, err := m.initial()
	if err != nil {
		res.Err = err.Error()
		return res
	}
	res.ResetIssues = problems
	max := stateCap
	if a := alphabet(sp, m); edgeCap/a < max {
		max = edgeCap / a
	}
	res.MaxStates = max
	var ex *xs.Explorer[string]
	ex = &xs.Explorer[string]{
		Key:       func(s string) string { return s },
		Succ:      func(id int, s string) []xs.Edge[string] { return m.succ(ex, id, s) },
		MaxStates: max,
		Workers:   workers,
		KeepGraph: true,
	}
	ex.Run(init)
	res.States, res.Transitions, res.Depth = ex.States, ex.Transitions, ex.Depth
	res.Closed, res.Cap = ex.Closed(), ex.CapHit
	lv := m.liveness(ex)
	for a, b := range lv.bound {
		res.Bounds[m.agentName(a)] = b
	}
	for _, l := range lv.lassos {
		m.record(l)
	}
	res.Viols = m.viols
	return res
}

func configs(thorough bool) []spec {
	var out []spec
	maxDepth, maxAg := 3, 2
	sizes := []int{1}
	if thorough {
		maxDepth, maxAg = 4, 3
		sizes = []int{1, 2}
	}
	for _, mt := range []string{"LIFO", "FIFO"} {
		for d := 1; d <= maxDepth; d++ {
			for s := 1; s <= maxAg; s++ {
				for r := 1; r <= maxAg; r++ {
					for _, w := range sizes {
						out = append(out, spec{Kind: "matrix", MemType: mt, Depth: d, DataSize: w, NS: s, NR: r, Domain: "full"})
					}
				}
			}
		}
	}
	if !thorough {
		// unequal agent counts across a power of two: the widths of the sender and receiver arbitration state differ
		for _, mt := range []string{"LIFO", "FIFO"} {
			for d := 1; d <= 2; d++ {
				for _, sr := range [][2]int{{3, 1}, {3, 2}, {1, 3}, {2, 3}} {
					out = append(out, spec{Kind: "matrix", MemType: mt, Depth: d, DataSize: 1, NS: sr[0], NR: sr[1], Domain: "full"})
				}
			}
		}
	}
	// free-data variants: the Data input is unconstrained whenever the module must not sample it
	for _, mt := range []string{"LIFO", "FIFO"} {
		for d := 1; d <= maxDepth; d++ {
			for _, sr := range [][2]int{{1, 1}, {2, 1}, {1, 2}, {2, 2}} {
				if sr[0]+sr[1] == 4 && !(thorough && d <= 2) {
					continue
				}
				out = append(out, spec{Kind: "matrix", MemType: mt, Depth: d, DataSize: 1, NS: sr[0], NR: sr[1], Domain: "full", FreeData: true})
			}
			if thorough && d <= 3 {
				out = append(out, spec{Kind: "matrix", MemType: mt, Depth: d, DataSize: 2, NS: 1, NR: 1, Domain: "full", FreeData: true})
			}
		}
	}
	// embeddings: parameters are the ones the generators pass themselves (see render.go); the register size is the
	// generator parameter that fixes DataSize for the shared objects, the thread stack width cannot be reduced
	// below id+pc+registers+nice bits, so the agents' value domain is {0,1,max} there.
	soDepths := []int{1, 2}
	if thorough {
		soDepths = []int{1, 2, 3, 4}
	}
	for _, so := range []struct{ so, mt string }{{"queue", "FIFO"}, {"stack", "LIFO"}} {
		for _, d := range soDepths {
			out = append(out, spec{Kind: "so", SO: so.so, MemType: so.mt, Depth: d, Procs: []string{"s", "r"}, Rsize: 1, Domain: "full"})
			out = append(out, spec{Kind: "so", SO: so.so, MemType: so.mt, Depth: d, Procs: []string{"sr", "sr"}, Rsize: 1, Domain: "full"})
			out = append(out, spec{Kind: "so", SO: so.so, MemType: so.mt, Depth: d, Procs: []string{"s", "r"}, Rsize: 8, Domain: "0,1,max"})
			if thorough {
				out = append(out, spec{Kind: "so", SO: so.so, MemType: so.mt, Depth: d, Procs: []string{"sr", "s", "r"}, Rsize: 2, Domain: "full"})
			}
		}
	}
	thr := []int{1, 2, 3}
	if thorough {
		thr = []int{1, 2, 3, 4}
	}
	for _, t := range thr {
		out = append(out, spec{Kind: "thread", MemType: "FIFO", Depth: t, Rsize: 8, Domain: "0,1,max"})
	}
	for _, d := range soDepths {
		out = append(out, spec{Kind: "dynop", MemType: "LIFO", Depth: d, Op: fmt.Sprintf("push%dx", d), Rsize: 8, Domain: "0,1,max"})
		out = append(out, spec{Kind: "dynop", MemType: "LIFO", Depth: d, Op: fmt.Sprintf("callo%dx", d), Rsize: 8, Domain: "0,1,max"})
	}
	return out
}

// rough cost for scheduling (largest first)
func cost(sp spec) int {
	ns, nr, dom := sp.NS, sp.NR, 1<<uint(sp.DataSize)
	if sp.Kind != "matrix" {
		ns, nr = 0, 0
		for _, p := range sp.Procs {
			if strings.Contains(p, "s") {
				ns++
			}
			if strings.Contains(p, "r") {
				nr++
			}
		}
		if sp.Kind != "so" {
			ns, nr = 1, 1
		}
		dom = 3
		if sp.Domain == "full" {
			dom = 1 << uint(sp.Rsize)
		}
	}
	c := 1
	if sp.FreeData {
		c = 2
	}
	for i := 0; i < ns; i++ {
		c *= (1 + dom) * (1 + 2*dom)
		if sp.FreeData {
			c *= dom
		}
	}
	for i := 0; i < nr; i++ {
		c *= 2 * 3 * dom
	}
	for i := 0; i < sp.Depth; i++ {
		c *= dom
	}
	return c * (sp.Depth + 1)
}

func main() {
	run := vlib.Start("C13", "model_checking")
	if run.Replay != "" {
		doReplay(run)
		return
	}
	if pf := os.Getenv("C13_PROF"); pf != "" {
		f, _ := os.Create(pf)
		pprof.StartCPUProfile(f)
		defer pprof.StopCPUProfile()
	}
	specs := configs(run.Thorough())
	sort.SliceStable(specs, func(i, j int) bool { return cost(specs[i]) > cost(specs[j]) })
	stateCap, edgeCap := 3000000, 60000000
	if run.Thorough() {
		stateCap, edgeCap = 1500000, 30000000
	}
	if v := os.Getenv("C13_ONLY"); v != "" { // debugging aid: substring filter on configuration names
		var f []spec
		for _, s := range specs {
			if strings.Contains(s.name(), v) {
				f = append(f, s)
			}
		}
		specs = f
	}
	par := 8
	workers := (2*runtime.NumCPU() + par - 1) / par
	results := make([]*cfgResult, len(specs))
	var wg sync.WaitGroup
	sem := make(chan struct{}, par)
	for i := range specs {
		wg.Add(1)
		sem <- struct{}{}
		go func(i int) {
			defer wg.Done()
			defer func() { <-sem }()
			results[i] = runConfig(specs[i], stateCap, edgeCap, workers)
		}(i)
	}
	wg.Wait()

	// report in a fixed order: smallest configuration first, so that each signature gets its smallest witness
	sort.SliceStable(results, func(i, j int) bool { return cost(results[i].Spec) < cost(results[j].Spec) })
	states, trans, closed, capped, failed := 0, 0, 0, 0, 0
	var table []map[string]any
	type pick struct {
		v *viol
		r *cfgResult
	}
	best := map[string]pick{}
	sigConfigs := map[string][]string{}
	worst := map[string]int{}
	var wbOK, wbBad int64
	for _, r := range results {
		row := map[string]any{"config": r.Name, "states": r.States, "transitions": r.Transitions, "bfs_depth": r.Depth,
			"closed": r.Closed, "response_bound": r.Bounds}
		if r.m != nil {
			row["registers_dirtied_before_reset_check"] = r.m.dirtied
			row["whitebox_agree"] = r.m.wbOK
			row["whitebox_disagree"] = r.m.wbBad
			wbOK += r.m.wbOK
			wbBad += r.m.wbBad
		}
		if r.Err != "" {
			row["error"] = r.Err
			failed++
			run.Report("C13|"+r.Spec.Kind+"|module-not-analysable", r.Name+": "+r.Err, replayObj{Spec: r.Spec})
			table = append(table, row)
			continue
		}
		if r.Cap != "" {
			row["cap_hit"] = fmt.Sprintf("%s=%d", r.Cap, r.MaxStates)
			capped++
		} else {
			closed++
		}
		states += r.States
		trans += r.Transitions
		for _, p := range r.ResetIssues {
			run.Report("C13|"+r.Spec.MemType+"|post-reset-state-not-empty", r.Name+": "+p, replayObj{Spec: r.Spec})
		}
		if len(r.Viols) > 0 {
			row["violations"] = sortedSigs(r.Viols)
		}
		for _, s := range sortedSigs(r.Viols) {
			v := r.Viols[s]
			sigConfigs[s] = append(sigConfigs[s], r.Name)
			if b, ok := best[s]; !ok || len(v.Labels)+len(v.Cycle) < len(b.v.Labels)+len(b.v.Cycle) {
				best[s] = pick{v, r}
			}
		}
		if r.Closed && len(r.Viols) == 0 {
			for a, b := range r.Bounds {
				k := "sender"
				for _, x := range r.m.recvs {
					if x == a {
						k = "receiver"
					}
				}
				if b > worst[k] {
					worst[k] = b
				}
			}
		}
		table = append(table, row)
	}
	var sigs []string
	for s := range best {
		sigs = append(sigs, s)
	}
	sort.Strings(sigs)
	for _, s := range sigs {
		p := best[s]
		tr, _ := p.r.m.describe(p.v.Labels, p.v.Cycle)
		what := fmt.Sprintf("%s [%s] after inputs %s", p.v.What, p.r.Name, strings.Join(p.v.Labels, " "))
		if len(p.v.Cycle) > 0 {
			what += " then forever (" + strings.Join(p.v.Cycle, " ") + ")"
		}
		what += fmt.Sprintf("; seen in %d configurations", len(sigConfigs[s]))
		run.Report(s, what, replayObj{Spec: p.r.Spec, Labels: p.v.Labels, Cycle: p.v.Cycle, Agent: p.v.Agent, Trace: tr})
	}
	run.Set("states", states)
	run.Set("transitions", trans)
	run.Set("traces_validated_against_impl", trans)
	run.Set("whitebox_transitions_internal_registers_agree", wbOK)
	run.Set("whitebox_transitions_internal_registers_disagree", wbBad)
	if wbBad > 0 {
		fmt.Printf("note: %d transitions reach a state whose sp/readsp/writesp/memory differ from the abstract sequence (not an alarm by itself)\n", wbBad)
	}
	run.Set("configurations", len(results))
	run.Set("configurations_closed", closed)
	run.Set("configurations_capped", capped)
	run.Set("configurations_failed", failed)
	run.Set("exhaustive", capped == 0 && failed == 0)
	run.Set("per_configuration", table)
	run.Set("worst_response_bound_closed_clean_configs", worst)
	run.Set("signature_configurations", sigConfigs)
	if run.Thorough() {
		run.Set("bounds", "matrix: MemType{LIFO,FIFO} x Depth 1..4 x senders 1..3 x receivers 1..3 x DataSize{1,2} (full value domain); embeddings: queue/stack shared objects depth 1..4 (1+1, 2+2 processors Rsize 1; 2 senders+2 receivers Rsize 2; 1+1 Rsize 8 domain {0,1,max}), thread stack Threaded 1..4, push/callo stacks depth 1..4 (domain {0,1,max})")
	} else {
		run.Set("bounds", "matrix: MemType{LIFO,FIFO} x Depth 1..3 x senders 1..2 x receivers 1..2 x DataSize 1 (full value domain); embeddings: queue/stack shared objects depth 1..2 (1+1, 2+2 processors Rsize 1; 1+1 Rsize 8 domain {0,1,max}), thread stack Threaded 1..3, push/callo stacks depth 1..2 (domain {0,1,max})")
	}
	run.Set("state_cap_per_configuration", fmt.Sprintf("min(%d states, %d edges / alphabet size)", stateCap, edgeCap))
	for i, r := range results {
		if i%7 == 0 && r.Err == "" {
			run.Sample(map[string]any{"config": r.Name, "states": r.States, "transitions": r.Transitions, "closed": r.Closed, "response_bound": r.Bounds})
		}
	}
	run.Assume("agents follow the four-phase handshake: request (and sender data) held until the Ack is seen, dropped at an arbitrary later cycle, raised again only when the Ack is low; sender data is 0 while idle")
	run.Assume("the Verilog semantics is that of the vsim interpreter (2-state, zero-delay, synthesis semantics); every transition is one posedge of the real generated text")
	run.Assume("flags are combinational functions of the occupancy register: empty <=> |seq|=0 and full <=> |seq|=Depth are required in every post-edge state")
	run.Assume("bounded response: no infinite path on which the agent keeps requesting with the resource available at every cycle while no other agent keeps a request raised forever after its acknowledge; B counts the clock edges on which nobody sits on a completed handshake")
	pprof.StopCPUProfile()
	run.Assume("embedded instances with wide data use the agent value domain {0,1,max}; the thread stack is checked against the FIFO discipline the generator requests")
	run.Finish()
}

func doReplay(run *vlib.Run) {
	var rp replayObj
	sig, err := vlib.LoadReplay(run.Replay, &rp)
	if err != nil {
		fmt.Println("cannot load replay:", err)
		os.Exit(2)
	}
	fmt.Println("replaying", sig, "on", rp.Spec.name())
	m, err := newModel(rp.Spec)
	steps := 0
	if err != nil {
		fmt.Println("module not analysable:", err)
		run.Report("C13|"+rp.Spec.Kind+"|module-not-analysable", err.Error(), rp)
	} else {
		_, problems, err := m.initial()
		if err != nil {
			fmt.Println("reset failed:", err)
		}
		for _, p := range problems {
			fmt.Println("post-reset:", p)
			run.Report("C13|"+rp.Spec.MemType+"|post-reset-state-not-empty", p, rp)
		}
		lines, _ := m.describe(rp.Labels, rp.Cycle)
		for _, l := range lines {
			fmt.Println(l)
		}
		steps = len(rp.Labels) + len(rp.Cycle)
		if c, w := m.recheck(rp); c != "" {
			run.Report(m.sig(c), w, rp)
		} else {
			fmt.Println("no failure reproduced on the current tree")
		}
	}
	run.Set("states", steps+1)
	run.Set("transitions", steps)
	run.Set("traces_validated_against_impl", 1)
	run.Set("exhaustive", false)
	run.Finish()
}

// recheck re-executes a stored case on the freshly rendered module and re-evaluates the oracle.
func (m *model) recheck(rp replayObj) (class, what string) {
	sim := m.proto.Clone()
	if err := m.resetState(sim, false); err != nil {
		return "simulator-error", err.Error()
	}
	g := &ghost{exp: make([]byte, len(m.recvs)), ph: make([]byte, m.na())}
	for i := range g.exp {
		g.exp[i] = noExp
	}
	for _, l := range rp.Labels {
		ng, c, w := m.step(sim, g, l)
		if c != "" {
			return c, w
		}
		g = ng
	}
	if len(rp.Cycle) == 0 {
		return "", ""
	}
	a := -1
	for i := 0; i < m.na(); i++ {
		if m.agentName(i) == rp.Agent {
			a = i
		}
	}
	if a < 0 {
		return "", ""
	}
	start := m.encode(g, sim.StateKey(nil))
	notAcked := make([]bool, m.na())
	for _, l := range rp.Cycle {
		avail := len(g.seq) < m.depth
		if a >= len(m.senders) {
			avail = len(g.seq) > 0
		}
		if g.ph[a] != phReq || !avail {
			fmt.Println("the agent is served or the resource is unavailable inside the loop: no starvation")
			return "", ""
		}
		for b := range notAcked {
			if g.ph[b] != phAcked {
				notAcked[b] = true
			}
		}
		ng, c, w := m.step(sim, g, l)
		if c != "" {
			return c, w
		}
		g = ng
	}
	if m.encode(g, sim.StateKey(nil)) != start {
		fmt.Println("the loop does not return to its first state: no starvation lasso")
		return "", ""
	}
	for b, ok := range notAcked {
		if b != a && !ok {
			fmt.Println("agent", m.agentName(b), "never completes its handshake inside the loop: not a fair lasso")
			return "", ""
		}
	}
	kind := "sender"
	if a >= len(m.senders) {
		kind = "receiver"
	}
	fmt.Printf("the loop returns to its first state with %s still waiting: the %s is starved forever\n", rp.Agent, kind)
	return kind + "-starved", "agent " + rp.Agent + " keeps its request raised with the resource available at every cycle, all other agents complete their handshakes, and it is never acknowledged"
}
