package main

// Bounded response on the stored reachability graph.
//
// For agent a let P_a be the set of reachable states in which a is in phase Req (request raised, not yet acknowledged)
// and the resource it asks for is available (sender: |seq| < Depth, receiver: |seq| > 0). A *starvation lasso* for a is an
// infinite path that stays inside P_a forever (a keeps requesting, is never acknowledged, the resource is available at
// every cycle - the weakest reading of "once space/data is available") and on which every other agent completes its
// handshakes: no other agent b stays in phase Acked (request still raised after its acknowledge) forever. Agents that
// wait for an acknowledge or stay idle are not constrained. On a finite graph such a path exists iff the subgraph
// induced by P_a has a non-trivial strongly connected component that contains, for every b != a, a state in which b is
// not in phase Acked (generalised Buechi emptiness). That is decided exactly here.
//
// Bound: a clock edge is *charged* unless some other agent holds a completed handshake across it (it is in phase Acked
// and chooses to keep its request raised). B_a = the maximum number of charged edges on any path that starts in P_a and
// runs until a is acknowledged or the resource disappears (the edge that leaves P_a is counted). When no starvation lasso
// exists every edge inside a non-trivial SCC of P_a is uncharged, so B_a is finite and is the longest weighted path of the
// SCC condensation: a is acknowledged after at most B_a clock edges that are not stolen by an agent sitting on its Ack.

import (
	"verif/engines/xs"
)

type liveResult struct {
	bound  []int // per agent
	lassos []*viol
}

func (m *model) liveness(ex *xs.Explorer[string]) liveResult {
	n := ex.States
	na, ns := m.na(), len(m.senders)
	res := liveResult{bound: make([]int, na)}
	occ := make([]uint8, n)
	phs := make([]string, n)
	for id := 0; id < n; id++ {
		o, p := m.peek(ex.StateOf(id))
		occ[id] = uint8(o)
		phs[id] = p
	}
	in := make([]bool, n)
	for a := 0; a < na; a++ {
		cnt := 0
		for id := 0; id < n; id++ {
			avail := int(occ[id]) < m.depth
			if a >= ns {
				avail = occ[id] > 0
			}
			in[id] = phs[id][a] == phReq && avail
			if in[id] {
				cnt++
			}
		}
		if cnt == 0 {
			continue
		}
		// iterative Tarjan on the induced subgraph; SCCs come out in reverse topological order
		index := make([]int32, n)
		low := make([]int32, n)
		comp := make([]int32, n)
		for i := range index {
			index[i] = -1
			comp[i] = -1
		}
		onstack := make([]bool, n)
		var stack []int32
		type frame struct {
			v int32
			e int
		}
		var next int32
		var ncomp int32
		var compDist []int // longest charged path starting in the component
		var call []frame
		for root := 0; root < n; root++ {
			if !in[root] || index[root] >= 0 {
				continue
			}
			call = append(call[:0], frame{int32(root), 0})
			index[root], low[root] = next, next
			next++
			stack = append(stack, int32(root))
			onstack[root] = true
			for len(call) > 0 {
				f := &call[len(call)-1]
				v := f.v
				edges := ex.Graph[v]
				advanced := false
				for f.e < len(edges) {
					w := edges[f.e].To
					f.e++
					if !in[w] {
						continue
					}
					if index[w] < 0 {
						index[w], low[w] = next, next
						next++
						stack = append(stack, w)
						onstack[w] = true
						call = append(call, frame{w, 0})
						advanced = true
						break
					} else if onstack[w] && index[w] < low[v] {
						low[v] = index[w]
					}
				}
				if advanced {
					continue
				}
				if low[v] == index[v] {
					// pop one component
					var members []int32
					for {
						w := stack[len(stack)-1]
						stack = stack[:len(stack)-1]
						onstack[w] = false
						comp[w] = ncomp
						members = append(members, w)
						if w == v {
							break
						}
					}
					nontrivial := len(members) > 1
					if !nontrivial {
						for _, e := range ex.Graph[v] {
							if e.To == v {
								nontrivial = true
							}
						}
					}
					// longest charged path: an edge is charged to the module unless some other agent holds a completed
					// handshake across it (letter 'h' in phase Acked); edges inside a non-fair component are never charged
					best := 0
					for _, w := range members {
						for _, e := range ex.Graph[w] {
							if comp[e.To] == ncomp {
								continue
							}
							d := 1
							for b := 0; b < na; b++ {
								if b != a && phs[w][b] == phAcked && isHold(e.Label[b]) {
									d = 0
								}
							}
							if in[e.To] {
								d += compDist[comp[e.To]]
							}
							if d > best {
								best = d
							}
						}
					}
					if nontrivial {
						// fair iff every other agent is outside phase Acked somewhere in the component
						fair := true
						wit := make([]int32, na)
						for b := 0; b < na && fair; b++ {
							if b == a {
								continue
							}
							found := false
							for _, w := range members {
								if phs[w][b] != phAcked {
									wit[b] = w
									found = true
									break
								}
							}
							fair = fair && found
						}
						if fair {
							res.lassos = append(res.lassos, m.lasso(ex, a, members, comp, ncomp, wit))
							best = 1 << 30
						}
					}
					if best > 1<<30 {
						best = 1 << 30
					}
					compDist = append(compDist, best)
					if best < 1<<30 && best > res.bound[a] {
						res.bound[a] = best
					}
					ncomp++
				}
				call = call[:len(call)-1]
				if len(call) > 0 {
					p := call[len(call)-1].v
					if low[v] < low[p] {
						low[p] = low[v]
					}
				}
			}
		}
	}
	return res
}

// lasso builds a concrete counterexample: shortest path to the component's shallowest state, then a cycle through the
// fairness witnesses back to it.
func (m *model) lasso(ex *xs.Explorer[string], a int, members []int32, comp []int32, c int32, wit []int32) *viol {
	entry := members[0]
	for _, w := range members {
		if w < entry {
			entry = w
		}
	}
	inC := func(v int32) bool { return comp[v] == c }
	// BFS inside the component from src to dst (at least one edge)
	path := func(src, dst int32) []string {
		type pr struct {
			from int32
			lab  string
		}
		prev := map[int32]pr{}
		q := []int32{src}
		for len(q) > 0 {
			v := q[0]
			q = q[1:]
			for _, e := range ex.Graph[v] {
				if !inC(e.To) {
					continue
				}
				if _, seen := prev[e.To]; seen {
					continue
				}
				prev[e.To] = pr{v, e.Label}
				if e.To == dst {
					var rev []string
					x := dst
					for {
						p := prev[x]
						rev = append(rev, p.lab)
						x = p.from
						if x == src && (len(rev) > 0) {
							break
						}
					}
					for i, j := 0, len(rev)-1; i < j; i, j = i+1, j-1 {
						rev[i], rev[j] = rev[j], rev[i]
					}
					return rev
				}
				q = append(q, e.To)
			}
		}
		return nil
	}
	var cyc []string
	cur := entry
	for b, w := range wit {
		if b == a || w == cur {
			continue
		}
		// skip witnesses already satisfied by the entry state
		_, ph := m.peek(ex.StateOf(int(entry)))
		if ph[b] != phAcked {
			continue
		}
		cyc = append(cyc, path(cur, w)...)
		cur = w
	}
	cyc = append(cyc, path(cur, entry)...)
	name := m.agentName(a)
	kind := "sender"
	if a >= len(m.senders) {
		kind = "receiver"
	}
	return &viol{
		Sig:    m.sig(kind + "-starved"),
		What:   "agent " + name + " keeps its request raised with the resource available at every cycle, all other agents complete their handshakes, and it is never acknowledged",
		Labels: ex.Path(int(entry)),
		Cycle:  cyc,
		Agent:  name,
	}
}
