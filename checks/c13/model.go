package main

// The closed system that is explored: generated module (interpreted by vsim) x protocol-abiding agents x ghost sequence.
//
// Port protocol established from pkg/bmstack/stackfile.go:
//   sender k  : input  <k>Data, input <k>Write, output reg <k>Ack
//   receiver k: output reg <k>Data, input <k>Read, output reg <k>Ack
//   empty/full: combinational functions of the occupancy register `sp` (assign empty=(sp==0), full=(sp==Depth)); `sp`
//               is updated by the same clock edge that raises the Ack, so the relation checked is exact and same-cycle:
//               in every reachable post-edge state  empty <=> |seq|=0  and  full <=> |seq|=Depth.
//   one clock (posedge clk), synchronous active-high reset.
//
// Agent automaton (one per port group; every agent chooses independently each cycle, all combinations are explored):
//   Idle  (req=0)        : stay idle | raise the request (sender: with any value of the domain), whatever Ack shows
//   Req   (req=1, ack=0) : must hold request (and data) unchanged
//   Acked (req=1, ack=1) : hold | drop the request (sender data is held unchanged while req=1, 0 while idle)
// The phase of an agent is a function of (its request input, its Ack output) of the current state.

import (
	"fmt"
	"sort"
	"strings"
	"sync"
	"sync/atomic"

	"verif/engines/vsim"
	"verif/engines/xs"
)

const (
	phIdle  = 0
	phReq   = 1
	phAcked = 2
	noExp   = 0xff // reader has no "expected data" obligation
	foreign = 0xfe // value outside the agents' domain
)

type model struct {
	sp      spec
	mod     string
	text    string
	depth   int
	fifo    bool
	senders []string
	recvs   []string
	width   int
	domain  []uint64 // values the senders may write (ghost stores indices into it)

	proto *vsim.Sim
	pool  sync.Pool

	clk, reset, empty, full vsim.SigID
	sData, sWrite, sAck     []vsim.SigID
	rData, rRead, rAck      []vsim.SigID
	// white-box observers (optional)
	hasSp, hasMem, hasPtr   bool
	spSig, memSig, rsp, wsp vsim.SigID

	labels sync.Map // interned labels
	wbBad  int64    // states whose internal registers disagree with the abstract sequence (evidence only)
	wbOK   int64
	dirtied int     // registers / memory words filled with ones before the reset check

	mu    sync.Mutex
	viols map[string]*viol // best (shortest) per signature
}

type viol struct {
	Sig    string
	What   string
	Labels []string // input letters from the post-reset state (one per clock)
	Cycle  []string // for liveness lassos: letters repeated forever after Labels
	Agent  string
}

func (m *model) na() int { return len(m.senders) + len(m.recvs) }

func (m *model) agentName(a int) string {
	if a < len(m.senders) {
		return m.senders[a]
	}
	return m.recvs[a-len(m.senders)]
}

func newModel(sp spec) (*model, error) {
	r, err := render(sp)
	if err != nil {
		return nil, fmt.Errorf("render: %v", err)
	}
	m := &model{sp: sp, mod: r.Module, text: r.Text, viols: map[string]*viol{}}
	d, diags := vsim.Parse(map[string]string{r.Module + ".v": r.Text})
	for _, dg := range diags {
		return nil, fmt.Errorf("parse: %v", dg)
	}
	sim, err := d.Elaborate(r.Module, nil)
	if err != nil {
		return nil, fmt.Errorf("elaborate: %v", err)
	}
	m.proto = sim
	m.fifo = sp.MemType == "FIFO"
	m.depth = sp.Depth
	look := func(n string) (vsim.SigID, error) {
		id, ok := sim.Lookup(n)
		if !ok {
			return 0, fmt.Errorf("signal %s not found in %s", n, r.Module)
		}
		return id, nil
	}
	for _, n := range []struct {
		n string
		p *vsim.SigID
	}{{"clk", &m.clk}, {"reset", &m.reset}, {"empty", &m.empty}, {"full", &m.full}} {
		if *n.p, err = look(n.n); err != nil {
			return nil, err
		}
	}
	// agents are discovered from the port list of the generated text (in port order)
	for _, p := range d.Ports(r.Module) {
		if p.Dir == "input" && strings.HasSuffix(p.Name, "Write") {
			m.senders = append(m.senders, strings.TrimSuffix(p.Name, "Write"))
		}
		if p.Dir == "input" && strings.HasSuffix(p.Name, "Read") {
			m.recvs = append(m.recvs, strings.TrimSuffix(p.Name, "Read"))
		}
	}
	if len(m.senders) == 0 || len(m.recvs) == 0 {
		return nil, fmt.Errorf("module %s has %d senders and %d receivers", r.Module, len(m.senders), len(m.recvs))
	}
	for _, s := range m.senders {
		a, e1 := look(s + "Data")
		b, e2 := look(s + "Write")
		c, e3 := look(s + "Ack")
		if e1 != nil || e2 != nil || e3 != nil {
			return nil, fmt.Errorf("sender %s ports incomplete", s)
		}
		m.sData, m.sWrite, m.sAck = append(m.sData, a), append(m.sWrite, b), append(m.sAck, c)
	}
	for _, s := range m.recvs {
		a, e1 := look(s + "Data")
		b, e2 := look(s + "Read")
		c, e3 := look(s + "Ack")
		if e1 != nil || e2 != nil || e3 != nil {
			return nil, fmt.Errorf("receiver %s ports incomplete", s)
		}
		m.rData, m.rRead, m.rAck = append(m.rData, a), append(m.rRead, b), append(m.rAck, c)
	}
	for _, si := range sim.Signals() {
		if si.Name == m.senders[0]+"Data" {
			m.width = si.Width
		}
	}
	if m.width <= 0 || m.width > 64 {
		return nil, fmt.Errorf("data width %d not supported by the harness", m.width)
	}
	max := uint64(1)<<uint(m.width) - 1
	if m.width == 64 {
		max = ^uint64(0)
	}
	if sp.Domain == "full" {
		if m.width > 4 {
			return nil, fmt.Errorf("full domain with width %d", m.width)
		}
		for v := uint64(0); v <= max; v++ {
			m.domain = append(m.domain, v)
		}
	} else {
		m.domain = []uint64{0, 1, max}
		if max <= 1 {
			m.domain = []uint64{0, 1}
		}
	}
	if m.spSig, m.hasSp = sim.Lookup("sp"); m.hasSp {
	}
	if m.memSig, m.hasMem = sim.Lookup("memory"); m.hasMem {
	}
	if m.fifo {
		var a, b bool
		m.rsp, a = sim.Lookup("readsp")
		m.wsp, b = sim.Lookup("writesp")
		m.hasPtr = a && b
	}
	if sp.FreeData && len(m.domain) > 4 {
		return nil, fmt.Errorf("free-data mode supports at most 4 values")
	}
	m.pool.New = func() any { return &worker{sim: m.proto.Clone()} }
	return m, nil
}

type worker struct {
	sim  *vsim.Sim
	snap []byte
	key  []byte
}

func (m *model) valIdx(v uint64) byte {
	for i, d := range m.domain {
		if d == v {
			return byte(i)
		}
	}
	return foreign
}

// ---- state encoding: [n][seq n bytes][expected data per receiver][phase per agent][vsim StateKey] ----------------

type ghost struct {
	seq []byte // domain indices, oldest first
	exp []byte // per receiver: value index it must see on Data while acked, or noExp
	ph  []byte // per agent
}

func (m *model) encode(g *ghost, key []byte) string {
	var sb strings.Builder
	sb.Grow(1 + len(g.seq) + len(g.exp) + len(g.ph) + len(key))
	sb.WriteByte(byte(len(g.seq)))
	sb.Write(g.seq)
	sb.Write(g.exp)
	sb.Write(g.ph)
	sb.Write(key)
	return sb.String()
}

func (m *model) decode(s string) (g ghost, key string) {
	n := int(s[0])
	o := 1
	g.seq = []byte(s[o : o+n])
	o += n
	g.exp = []byte(s[o : o+len(m.recvs)])
	o += len(m.recvs)
	g.ph = []byte(s[o : o+m.na()])
	o += m.na()
	return g, s[o:]
}

// phases / occupancy without a simulator (for the graph analyses)
func (m *model) peek(s string) (n int, ph string) {
	n = int(s[0])
	o := 1 + n + len(m.recvs)
	return n, s[o : o+m.na()]
}

// ---- reset ---------------------------------------------------------------------------------------------------------

// initial state: Init, reset held high across one clock edge with all requests low, reset released.
// dirty=true first fills every register / memory word the harness can name with all-ones (so that the reset branch,
// not the simulator's zero initialisation, is what produces the empty stack).
func (m *model) resetState(sim *vsim.Sim, dirty bool) error {
	if err := sim.Init(); err != nil {
		return err
	}
	if dirty {
		for _, si := range sim.Signals() {
			if !si.IsReg || si.IsInput {
				continue
			}
			id, _ := sim.Lookup(si.Name)
			all := ^uint64(0)
			if si.Width < 64 {
				all = uint64(1)<<uint(si.Width) - 1
			}
			if si.Width > 64 {
				continue
			}
			if si.Depth > 0 {
				for i := 0; i < si.Depth; i++ {
					sim.SetMem(id, i, all)
					m.dirtied++
				}
			} else if si.Name != "i" {
				sim.Set(id, all)
				m.dirtied++
			}
		}
	}
	for i := range m.senders {
		sim.Set(m.sData[i], 0)
		sim.Set(m.sWrite[i], 0)
	}
	for i := range m.recvs {
		sim.Set(m.rRead[i], 0)
	}
	sim.Set(m.reset, 1)
	if err := sim.Posedge(m.clk); err != nil {
		return err
	}
	sim.Set(m.reset, 0)
	return sim.Settle()
}

func (m *model) initial() (string, []string, error) {
	sim := m.proto.Clone()
	var problems []string
	if err := m.resetState(sim, true); err != nil {
		return "", nil, err
	}
	dirtyKey := string(sim.StateKey(nil))
	if err := m.resetState(sim, false); err != nil {
		return "", nil, err
	}
	key := sim.StateKey(nil)
	if dirtyKey != string(key) {
		problems = append(problems, "reset from an all-ones register state does not reach the same state as reset from an all-zero state")
	}
	g := &ghost{exp: make([]byte, len(m.recvs)), ph: make([]byte, m.na())}
	for i := range g.exp {
		g.exp[i] = noExp
	}
	for i := range m.senders {
		if sim.Get(m.sAck[i]) != 0 {
			problems = append(problems, m.senders[i]+"Ack high after reset")
		}
	}
	for i := range m.recvs {
		if sim.Get(m.rAck[i]) != 0 {
			problems = append(problems, m.recvs[i]+"Ack high after reset")
		}
	}
	if c, w := m.invariant(sim, g); c != "" {
		problems = append(problems, c+": "+w)
	}
	return m.encode(g, key), problems, nil
}

// ---- invariants of a post-edge state -------------------------------------------------------------------------------

func (m *model) invariant(sim *vsim.Sim, g *ghost) (class, what string) {
	n := len(g.seq)
	e, f := sim.Get(m.empty), sim.Get(m.full)
	if (e == 1) != (n == 0) {
		return "empty-flag-wrong", fmt.Sprintf("empty=%d with %d stored elements", e, n)
	}
	if (f == 1) != (n == m.depth) {
		return "full-flag-wrong", fmt.Sprintf("full=%d with %d stored elements (depth %d)", f, n, m.depth)
	}
	for k := range m.recvs {
		if g.ph[len(m.senders)+k] == phAcked && g.exp[k] != noExp {
			if got := m.valIdx(sim.Get(m.rData[k])); got != g.exp[k] {
				return "read-data-changed-while-acked", fmt.Sprintf("%sData=%d while acked, the element handed over was %d",
					m.recvs[k], sim.Get(m.rData[k]), m.domain[g.exp[k]])
			}
		}
	}
	return "", ""
}

// whitebox compares the internal registers the template is known to use (sp, readsp, writesp, memory) with the abstract
// sequence. A disagreement is NOT a violation of the property by itself (the property speaks about the handshake ports and
// the flags; an observable consequence is found by the exhaustive exploration anyway): it is counted in the evidence only.
func (m *model) whitebox(sim *vsim.Sim, g *ghost) string {
	n := len(g.seq)
	if m.hasSp {
		if sp := sim.Get(m.spSig); int(sp) != n {
			return fmt.Sprintf("sp=%d with %d stored elements", sp, n)
		}
	}
	if m.hasMem && (!m.fifo || m.hasPtr) {
		base := 0
		if m.fifo {
			base = int(sim.Get(m.rsp))
			w := int(sim.Get(m.wsp))
			if base >= m.depth || w >= m.depth || (base+n)%m.depth != w {
				return fmt.Sprintf("readsp=%d writesp=%d with %d stored elements (depth %d)", base, w, n, m.depth)
			}
		}
		for i := 0; i < n; i++ {
			if got := m.valIdx(sim.GetMem(m.memSig, (base+i)%m.depth)); got != g.seq[i] {
				return fmt.Sprintf("memory[%d]=%d, abstract element %d is %d",
					(base+i)%m.depth, sim.GetMem(m.memSig, (base+i)%m.depth), i, m.domain[g.seq[i]])
			}
		}
	}
	return ""
}

// ---- one clock of the closed system --------------------------------------------------------------------------------

// choice letters: '-' stay idle, 'h' hold, 'd' drop, 'r' raise (receiver), '0'+i raise with domain value i (sender).
// Free-data mode (spec.FreeData) lets a sender put any value on its Data input whenever the value is not being sampled
// (idle, or request still raised after the Ack): 'w'+i = request low with data i, 'A'+i = keep request raised with data i.
func (m *model) choices(g *ghost, a int) []byte {
	switch g.ph[a] {
	case phReq:
		return []byte{'h'}
	case phAcked:
		if m.sp.FreeData && a < len(m.senders) {
			var o []byte
			for i := range m.domain {
				o = append(o, byte('A'+i), byte('w'+i))
			}
			return o
		}
		return []byte{'h', 'd'}
	}
	return nil // idle: depends on ack, computed by caller
}

// isHold: the letter keeps a request raised
func isHold(c byte) bool { return c == 'h' || (c >= 'A' && c <= 'P') }

type event struct {
	write bool
	k     int  // index within senders / receivers
	val   byte // write: held value index
}

// step applies the letter string (one letter per agent) to sim (which must hold the pre-state) and clocks once.
// It returns the successor ghost, or a failure class.
func (m *model) step(sim *vsim.Sim, g *ghost, letters string) (ng *ghost, class, what string) {
	ns := len(m.senders)
	preAck := make([]uint64, m.na())
	req := make([]bool, m.na())
	held := make([]byte, ns)
	for k := 0; k < ns; k++ {
		preAck[k] = sim.Get(m.sAck[k])
		switch c := letters[k]; {
		case c == '-' || c == 'd':
			sim.Set(m.sWrite[k], 0)
			sim.Set(m.sData[k], 0)
		case c >= 'w' && c <= 'z':
			sim.Set(m.sWrite[k], 0)
			sim.Set(m.sData[k], m.domain[c-'w'])
		case c >= 'A' && c <= 'P':
			req[k] = true
			sim.Set(m.sData[k], m.domain[c-'A'])
			held[k] = c - 'A'
		case c == 'h':
			req[k] = true
			held[k] = m.valIdx(sim.Get(m.sData[k]))
		default:
			req[k] = true
			held[k] = c - '0'
			sim.Set(m.sData[k], m.domain[c-'0'])
			sim.Set(m.sWrite[k], 1)
		}
	}
	for k := range m.recvs {
		preAck[ns+k] = sim.Get(m.rAck[k])
		switch letters[ns+k] {
		case '-', 'd':
			sim.Set(m.rRead[k], 0)
		case 'r':
			sim.Set(m.rRead[k], 1)
			req[ns+k] = true
		case 'h':
			req[ns+k] = true
		}
	}
	if err := sim.Posedge(m.clk); err != nil {
		return nil, "simulator-error", err.Error()
	}
	ng = &ghost{seq: append([]byte(nil), g.seq...), exp: append([]byte(nil), g.exp...), ph: make([]byte, m.na())}
	var evs []event
	for a := 0; a < m.na(); a++ {
		var post uint64
		if a < ns {
			post = sim.Get(m.sAck[a])
		} else {
			post = sim.Get(m.rAck[a-ns])
		}
		// an acknowledged operation, as the agent sees it: the first clock at which its request and its Ack are
		// both high (normally the clock at which Ack rises; with an Ack left over from the previous operation it is
		// the clock of the new request itself)
		rose := (preAck[a] == 0 && post == 1) || (req[a] && post == 1 && g.ph[a] == phIdle)
		switch {
		case !req[a] && g.ph[a] == phIdle && preAck[a] == 1 && post == 1:
			return nil, "ack-not-released", m.agentName(a) + "Ack is still high a full clock after the agent dropped its request"
		case rose && !req[a]:
			return nil, "ack-without-request", m.agentName(a) + "Ack rose although the agent was not requesting"
		case rose && a < ns:
			evs = append(evs, event{write: true, k: a, val: held[a]})
		case rose:
			evs = append(evs, event{k: a - ns})
		case preAck[a] == 1 && post == 0 && req[a]:
			return nil, "ack-withdrawn-while-requested", m.agentName(a) + "Ack fell while the request was still held"
		}
		switch {
		case !req[a]:
			ng.ph[a] = phIdle
			if a >= ns {
				ng.exp[a-ns] = noExp
			}
		case post == 1:
			ng.ph[a] = phAcked
		default:
			ng.ph[a] = phReq
		}
	}
	// apply the acknowledged operations to the abstract sequence. The template serves one operation per clock;
	// should several acks rise together, any serialisation that is consistent is accepted.
	if len(evs) > 1 {
		perm := make([]int, len(evs))
		for i := range perm {
			perm[i] = i
		}
		var firstC, firstW string
		found := false
		permute(perm, 0, func(p []int) bool {
			t := &ghost{seq: append([]byte(nil), ng.seq...), exp: append([]byte(nil), ng.exp...), ph: ng.ph}
			for _, i := range p {
				if c, w := m.apply(sim, t, evs[i]); c != "" {
					if firstC == "" {
						firstC, firstW = c, w
					}
					return false
				}
			}
			if c, w := m.invariant(sim, t); c != "" {
				if firstC == "" {
					firstC, firstW = c, w
				}
				return false
			}
			ng.seq, ng.exp = t.seq, t.exp
			found = true
			return true
		})
		if !found {
			return nil, firstC, firstW + " (several acks rose in one clock; no serialisation is consistent)"
		}
		return ng, "", ""
	}
	for _, e := range evs {
		if c, w := m.apply(sim, ng, e); c != "" {
			return nil, c, w
		}
	}
	if c, w := m.invariant(sim, ng); c != "" {
		return nil, c, w
	}
	return ng, "", ""
}

func permute(p []int, i int, f func([]int) bool) bool {
	if i == len(p) {
		return f(p)
	}
	for j := i; j < len(p); j++ {
		p[i], p[j] = p[j], p[i]
		if permute(p, i+1, f) {
			return true
		}
		p[i], p[j] = p[j], p[i]
	}
	return false
}

func (m *model) apply(sim *vsim.Sim, g *ghost, e event) (class, what string) {
	if e.write {
		if len(g.seq) == m.depth {
			return "write-acked-when-full", fmt.Sprintf("%sAck rose with %d of %d elements stored", m.senders[e.k], len(g.seq), m.depth)
		}
		g.seq = append(g.seq, e.val)
		return "", ""
	}
	if len(g.seq) == 0 {
		return "read-acked-when-empty", m.recvs[e.k] + "Ack rose with no element stored"
	}
	var want byte
	if m.fifo {
		want = g.seq[0]
		g.seq = g.seq[1:]
	} else {
		want = g.seq[len(g.seq)-1]
		g.seq = g.seq[:len(g.seq)-1]
	}
	g.exp[e.k] = want
	if got := m.valIdx(sim.Get(m.rData[e.k])); got != want {
		return "read-returns-wrong-element", fmt.Sprintf("%sData=%d at the acknowledge, the %s discipline prescribes %d",
			m.recvs[e.k], sim.Get(m.rData[e.k]), m.sp.MemType, m.domain[want])
	}
	return "", ""
}

func (m *model) intern(b []byte) string {
	if v, ok := m.labels.Load(string(b)); ok {
		return v.(string)
	}
	s := string(b)
	v, _ := m.labels.LoadOrStore(s, s)
	return v.(string)
}

func (m *model) record(v *viol) {
	m.mu.Lock()
	defer m.mu.Unlock()
	old := m.viols[v.Sig]
	if old == nil || better(v, old) {
		m.viols[v.Sig] = v
	}
}

func better(a, b *viol) bool {
	la, lb := len(a.Labels)+len(a.Cycle), len(b.Labels)+len(b.Cycle)
	if la != lb {
		return la < lb
	}
	return strings.Join(a.Labels, " ")+"|"+strings.Join(a.Cycle, " ") < strings.Join(b.Labels, " ")+"|"+strings.Join(b.Cycle, " ")
}

// succ enumerates every combination of agent choices in state s.
func (m *model) succ(ex *xs.Explorer[string], id int, s string) []xs.Edge[string] {
	w := m.pool.Get().(*worker)
	defer m.pool.Put(w)
	sim := w.sim
	g, key := m.decode(s)
	if err := sim.RestoreKey([]byte(key)); err != nil {
		m.record(&viol{Sig: m.sig("simulator-error"), What: err.Error(), Labels: ex.Path(id)})
		return nil
	}
	w.snap = sim.SnapshotInto(w.snap)
	ns := len(m.senders)
	opts := make([][]byte, m.na())
	for a := 0; a < m.na(); a++ {
		if c := m.choices(&g, a); c != nil {
			opts[a] = c
			continue
		}
		var ack uint64
		if a < ns {
			ack = sim.Get(m.sAck[a])
		} else {
			ack = sim.Get(m.rAck[a-ns])
		}
		o := []byte{'-'}
		if m.sp.FreeData && a < ns {
			o = o[:0]
			for i := range m.domain {
				o = append(o, byte('w'+i))
			}
		}
		// an idle agent may raise its request whatever its Ack line shows: the opcodes that drive these ports (r2q,
		// q2r, r2t, t2r, ...) never wait for Ack to fall before the next request. (In the generated module Ack falls
		// at the very edge that samples the dropped request, so an idle agent never sees Ack high — unless the
		// release is broken, which is exactly what must not be masked.)
		_ = ack
		if a < ns {
			for i := range m.domain {
				o = append(o, byte('0'+i))
			}
		} else {
			o = append(o, 'r')
		}
		opts[a] = o
	}
	var out []xs.Edge[string]
	idx := make([]int, m.na())
	letters := make([]byte, m.na())
	for {
		for a := range idx {
			letters[a] = opts[a][idx[a]]
		}
		sim.Restore(w.snap)
		lab := m.intern(letters)
		ng, class, what := m.step(sim, &g, lab)
		if class != "" {
			p := append(ex.Path(id), lab)
			m.record(&viol{Sig: m.sig(class), What: what, Labels: p})
		} else {
			if wb := m.whitebox(sim, ng); wb != "" {
				atomic.AddInt64(&m.wbBad, 1)
			} else {
				atomic.AddInt64(&m.wbOK, 1)
			}
			w.key = sim.StateKey(w.key)
			out = append(out, xs.Edge[string]{Label: lab, Next: m.encode(ng, w.key)})
		}
		a := 0
		for ; a < len(idx); a++ {
			idx[a]++
			if idx[a] < len(opts[a]) {
				break
			}
			idx[a] = 0
		}
		if a == len(idx) {
			break
		}
	}
	return out
}

// signature: C13|<discipline>|<failure class>[|structural qualifier]
func (m *model) sig(class string) string {
	return "C13|" + m.sp.MemType + "|" + class
}

// describe renders a trace for humans: per clock the letters and the observable outputs after the edge.
func (m *model) describe(labels, cycle []string) ([]string, error) {
	sim := m.proto.Clone()
	if err := m.resetState(sim, false); err != nil {
		return nil, err
	}
	g := &ghost{exp: make([]byte, len(m.recvs)), ph: make([]byte, m.na())}
	for i := range g.exp {
		g.exp[i] = noExp
	}
	var lines []string
	lines = append(lines, "agents: "+strings.Join(append(append([]string{}, m.senders...), m.recvs...), " ")+
		"   letters: - idle, <i> raise write of domain value i, r raise read, h hold, d drop, w+i request low with data i, A+i hold with data i; domain="+fmt.Sprint(m.domain))
	lines = append(lines, "after reset: "+m.observe(sim, g))
	all := append(append([]string{}, labels...), cycle...)
	for i, l := range all {
		ng, class, what := m.step(sim, g, l)
		tag := fmt.Sprintf("clk %d", i+1)
		if i >= len(labels) {
			tag += " (loop)"
		}
		if class != "" {
			lines = append(lines, fmt.Sprintf("%s inputs %s -> %s   FAIL %s: %s", tag, l, m.observeRaw(sim), class, what))
			return lines, nil
		}
		g = ng
		lines = append(lines, fmt.Sprintf("%s inputs %s -> %s", tag, l, m.observe(sim, g)))
	}
	return lines, nil
}

func (m *model) observeRaw(sim *vsim.Sim) string {
	var p []string
	for i, s := range m.senders {
		p = append(p, fmt.Sprintf("%sAck=%d", s, sim.Get(m.sAck[i])))
	}
	for i, s := range m.recvs {
		p = append(p, fmt.Sprintf("%sAck=%d %sData=%d", s, sim.Get(m.rAck[i]), s, sim.Get(m.rData[i])))
	}
	p = append(p, fmt.Sprintf("empty=%d full=%d", sim.Get(m.empty), sim.Get(m.full)))
	if m.hasSp {
		p = append(p, fmt.Sprintf("sp=%d", sim.Get(m.spSig)))
	}
	if m.hasPtr {
		p = append(p, fmt.Sprintf("readsp=%d writesp=%d", sim.Get(m.rsp), sim.Get(m.wsp)))
	}
	if m.hasMem {
		var mem []string
		for i := 0; i < m.depth; i++ {
			mem = append(mem, fmt.Sprint(sim.GetMem(m.memSig, i)))
		}
		p = append(p, "memory=["+strings.Join(mem, ",")+"]")
	}
	return strings.Join(p, " ")
}

func (m *model) observe(sim *vsim.Sim, g *ghost) string {
	var seq []string
	for _, v := range g.seq {
		seq = append(seq, fmt.Sprint(m.domain[v]))
	}
	return m.observeRaw(sim) + "  abstract=[" + strings.Join(seq, ",") + "]"
}

func sortedSigs(v map[string]*viol) []string {
	var k []string
	for s := range v {
		k = append(k, s)
	}
	sort.Strings(k)
	return k
}
