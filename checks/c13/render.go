package main

// Rendering of the module under test from the REAL generators of /repo:
//   matrix  : bmstack.CreateBasicStack + WriteHDL with the parameters of the configuration
//   so      : the `queue:N` / `stack:N` shared objects through bondmachine.<X>_instance.Write_verilog
//   thread  : the FIFO "thread stack" that procbuilder.Conproc.Write_verilog drops into the CWD (Threaded>0)
//   dynop   : the LIFO return / register stacks of the dynamic call<N> / push<N> opcodes

import (
	"fmt"
	"os"
	"path/filepath"
	"strconv"
	"strings"
	"sync"

	"verif/lib/bmgen"

	"github.com/BondMachineHQ/BondMachine/pkg/bmstack"
	"github.com/BondMachineHQ/BondMachine/pkg/bondmachine"
	"github.com/BondMachineHQ/BondMachine/pkg/procbuilder"
)

// spec is everything needed to re-render a configuration (it is what a replay file stores).
type spec struct {
	Kind     string   `json:"kind"`               // matrix | so | thread | dynop
	MemType  string   `json:"memtype"`            // discipline the instance is expected to implement
	Depth    int      `json:"depth"`              // matrix: Depth; so: N of queue:N; thread: Threaded; dynop: N
	DataSize int      `json:"datasize,omitempty"` // matrix only (the others derive it; see Rsize)
	NS       int      `json:"senders,omitempty"`  // matrix only
	NR       int      `json:"receivers,omitempty"`
	SO       string   `json:"so,omitempty"`    // so: queue | stack
	Procs    []string `json:"procs,omitempty"` // so: one entry per linked processor: "sr" | "s" | "r"
	Rsize    int      `json:"rsize,omitempty"` // so / thread / dynop: register size given to the generator
	Op       string   `json:"op,omitempty"`    // dynop: opcode name (call2x, push2x)
	Domain   string   `json:"domain"`          // "full" or "0,1,max": values the sender agents may write
	FreeData bool     `json:"freedata,omitempty"` // senders drive arbitrary data whenever it is not being sampled
}

func (s spec) name() string {
	switch s.Kind {
	case "matrix":
		fd := ""
		if s.FreeData {
			fd = " freedata"
		}
		return fmt.Sprintf("%s depth=%d senders=%d receivers=%d datasize=%d%s", s.MemType, s.Depth, s.NS, s.NR, s.DataSize, fd)
	case "so":
		return fmt.Sprintf("so %s:%d procs=%s rsize=%d (%s)", s.SO, s.Depth, strings.Join(s.Procs, "+"), s.Rsize, s.MemType)
	case "thread":
		return fmt.Sprintf("thread stack Threaded=%d rsize=%d (%s)", s.Depth, s.Rsize, s.MemType)
	case "dynop":
		return fmt.Sprintf("dynop %s rsize=%d (%s)", s.Op, s.Rsize, s.MemType)
	}
	return "?"
}

type rendered struct {
	Module string
	Text   string
}

var chdirMu sync.Mutex // the thread-stack generator writes into the CWD: serialise and use a scratch directory

func render(s spec) (r rendered, err error) {
	defer func() {
		if p := recover(); p != nil {
			err = fmt.Errorf("generator panic: %v", p)
		}
	}()
	switch s.Kind {
	case "matrix":
		st := bmstack.CreateBasicStack()
		st.ModuleName = "bmstack"
		st.DataSize = s.DataSize
		st.Depth = s.Depth
		st.MemType = s.MemType
		for i := 0; i < s.NS; i++ {
			st.Senders = append(st.Senders, "s"+strconv.Itoa(i))
		}
		for i := 0; i < s.NR; i++ {
			st.Receivers = append(st.Receivers, "r"+strconv.Itoa(i))
		}
		txt, e := st.WriteHDL()
		return rendered{"bmstack", txt}, e
	case "so":
		wr, rd := "r2q", "q2r"
		if s.SO == "stack" {
			wr, rd = "r2t", "t2r"
		}
		b := new(bondmachine.Bondmachine)
		b.Rsize = uint8(s.Rsize)
		b.Init()
		for i, p := range s.Procs {
			ops := []string{"nop"}
			if strings.Contains(p, "s") {
				ops = append(ops, wr)
			}
			if strings.Contains(p, "r") {
				ops = append(ops, rd)
			}
			mc, e := bmgen.NewMachine(bmgen.ArchSpec{Rsize: uint8(s.Rsize), R: 1, N: 0, M: 0, L: 0, O: 2, Ops: ops})
			if e != nil {
				return r, e
			}
			b.Domains = append(b.Domains, mc)
			if _, e := b.Add_processor(i); e != nil {
				return r, e
			}
		}
		b.Add_shared_objects([]string{s.SO + ":" + strconv.Itoa(s.Depth)})
		if len(b.Shared_objects) != 1 {
			return r, fmt.Errorf("shared object %s:%d not instantiated", s.SO, s.Depth)
		}
		for i := range s.Procs {
			b.Connect_processor_shared_object([]string{strconv.Itoa(i), "0"})
		}
		name := b.Shared_objects[0].Shortname() + "0"
		return rendered{name, b.Shared_objects[0].Write_verilog(b, 0, name, "iverilog")}, nil
	case "thread":
		mc, e := bmgen.NewMachine(bmgen.ArchSpec{Rsize: uint8(s.Rsize), R: 1, N: 1, M: 1, L: 0, O: 2, Ops: []string{"nop", "j", "i2rw", "r2owa"}, Threaded: s.Depth})
		if e != nil {
			return r, e
		}
		mc.Arch.Conproc.Threaded = s.Depth
		chdirMu.Lock()
		defer chdirMu.Unlock()
		dir, e := os.MkdirTemp("", "verif-c13-")
		if e != nil {
			return r, e
		}
		defer os.RemoveAll(dir)
		wd, _ := os.Getwd()
		if e := os.Chdir(dir); e != nil {
			return r, e
		}
		defer os.Chdir(wd)
		conf := new(bondmachine.Config)
		pConf := conf.ProcbuilderConfig()
		ri := new(procbuilder.RuntimeInfo)
		ri.Init()
		pConf.Runinfo = ri
		_ = mc.Arch.Conproc.Write_verilog(pConf, &mc.Arch, "p0", "iverilog")
		name := "threadStack" + strconv.Itoa(s.Depth)
		txt, e := os.ReadFile(filepath.Join(dir, name+"stack.v"))
		if e != nil {
			return r, fmt.Errorf("thread stack file not produced: %v", e)
		}
		return rendered{name, string(txt)}, nil
	case "dynop":
		mc, e := bmgen.NewMachine(bmgen.ArchSpec{Rsize: uint8(s.Rsize), R: 1, N: 0, M: 0, L: 0, O: 2, Ops: []string{"nop", s.Op}})
		if e != nil {
			return r, e
		}
		for _, op := range mc.Arch.Op {
			if op.Op_get_name() == s.Op {
				names, texts := op.Op_instruction_verilog_extra_modules(&mc.Arch, "iverilog")
				if len(names) == 1 {
					return rendered{names[0], texts[0]}, nil
				}
			}
		}
		return r, fmt.Errorf("opcode %s produced no stack module", s.Op)
	}
	return r, fmt.Errorf("unknown kind %q", s.Kind)
}
