package main

// CLI stage: the list-valued edits of cmd/bondmachine (`-del-inputs a,b,…`, `-del-outputs …`, `-del-bonds …`) are
// edits too: one invocation names a SET of ports (ids of the machine as it is before the invocation) and the command
// line tool turns it into a sequence of API calls. For fully bonded machines with k external inputs, k outputs and
// one k×k processor (k = 2, 3; every external port is bonded, so every wrongly deleted or surviving port shows in the
// bonds) EVERY id list of length 1..3 over {0..k} (k itself is out of range; repeated ids included, every order) is
// run through the real binary in a fresh process on the saved machine; the machine it writes back is loaded and
// compared with the reference model in which exactly the named existing ports (bond slots) are removed.

import (
	"encoding/json"
	"fmt"
	"os"
	"os/exec"
	"path/filepath"
	"sort"
	"strconv"
	"strings"
	"sync"

	"github.com/BondMachineHQ/BondMachine/pkg/bondmachine"
	"github.com/BondMachineHQ/BondMachine/pkg/procbuilder"

	"verif/lib/vlib"
)

type cliCase struct {
	K    int      `json:"k"`
	Flag string   `json:"flag"`
	List []string `json:"list"`
}

func cliMachine(k int) (state, []op) {
	b := new(bondmachine.Bondmachine)
	b.Rsize = 8
	b.Domains = []*procbuilder.Machine{newMachine(uint8(k), uint8(k))}
	b.Init()
	s := state{b, &ref{Bonds: map[string]string{}}}
	var ops []op
	for i := 0; i < k; i++ {
		ops = append(ops, op{Kind: "add_input"}, op{Kind: "add_output"})
	}
	ops = append(ops, op{Kind: "add_processor", Arg: 0})
	for i := 0; i < k; i++ {
		ops = append(ops, op{Kind: "add_bond", Ends: []string{fmt.Sprintf("p0i%d", i), fmt.Sprintf("i%d", i)}},
			op{Kind: "add_bond", Ends: []string{fmt.Sprintf("o%d", i), fmt.Sprintf("p0o%d", i)}})
	}
	for _, o := range ops {
		if err, p := applyImpl(s.bm, o); err != nil || p != nil {
			panic(fmt.Sprint("building the CLI machine: ", err, p))
		}
		s.rf.apply(o, [][2]int{{k, k}}, "")
	}
	return s, ops
}

// what one invocation means: the distinct in-range ids it names, removed from the machine it was given
func cliReference(s state, c cliCase) *ref {
	r := s.rf.clone()
	limit := map[string]int{"-del-inputs": r.NIn, "-del-outputs": r.NOut, "-del-bonds": len(r.Ins)}[c.Flag]
	set := map[int]bool{}
	for _, t := range c.List {
		if v, err := strconv.Atoi(t); err == nil && v >= 0 && v < limit {
			set[v] = true
		}
	}
	var ids []int
	for v := range set {
		ids = append(ids, v)
	}
	sort.Sort(sort.Reverse(sort.IntSlice(ids))) // highest first: removing a port renumbers only the ones above it
	ins := s.bm.List_internal_inputs()
	for _, v := range ids {
		switch c.Flag {
		case "-del-inputs":
			r.apply(op{Kind: "del_input", Arg: v}, nil, "")
		case "-del-outputs":
			r.apply(op{Kind: "del_output", Arg: v}, nil, "")
		case "-del-bonds":
			r.apply(op{Kind: "del_bond", Arg: v}, nil, ins[v])
		}
	}
	return r
}

func runCLICase(bin, dir string, s state, c cliCase) (class, detail string) {
	f := filepath.Join(dir, "bm.json")
	js, err := json.Marshal(s.bm.Jsoner())
	if err != nil {
		return "harness", err.Error()
	}
	os.WriteFile(f, js, 0o644)
	cmd := exec.Command(bin, "-bondmachine-file", f, c.Flag, strings.Join(c.List, ","))
	cmd.Dir = dir
	out, err := cmd.CombinedOutput()
	if err != nil {
		return "cli-failed", fmt.Sprintf("%v: %s", err, lastLines(string(out)))
	}
	b, err := os.ReadFile(f)
	if err != nil {
		return "harness", err.Error()
	}
	bj := new(bondmachine.Bondmachine_json)
	if err := json.Unmarshal(b, bj); err != nil {
		return "cli-output-unloadable", err.Error()
	}
	nb := bj.Dejsoner()
	return inv(state{nb, cliReference(s, c)})
}

func lastLines(s string) string {
	l := strings.Split(strings.TrimSpace(s), "\n")
	if len(l) > 2 {
		l = l[len(l)-2:]
	}
	return strings.Join(l, " / ")
}

func cliLists(k int) [][]string {
	var out [][]string
	var rec func(cur []string)
	rec = func(cur []string) {
		if len(cur) > 0 {
			out = append(out, append([]string{}, cur...))
		}
		if len(cur) == 3 {
			return
		}
		for v := 0; v <= k; v++ {
			rec(append(cur, strconv.Itoa(v)))
		}
	}
	rec(nil)
	return out
}

func buildCLI(dir string) (string, error) {
	args := []string{"build"}
	if ov := os.Getenv("VERIF_OVERLAY"); ov != "" {
		args = append(args, "-overlay", ov)
	}
	bin := filepath.Join(dir, "bondmachine")
	args = append(args, "-o", bin, "./cmd/bondmachine")
	cmd := exec.Command("go", args...)
	cmd.Dir = "/repo"
	if out, err := cmd.CombinedOutput(); err != nil {
		return "", fmt.Errorf("%v\n%s", err, out)
	}
	return bin, nil
}

func cliStage(run *vlib.Run) {
	scratch, cleanup := vlib.Scratch("c10")
	defer cleanup()
	bin, err := buildCLI(scratch)
	if err != nil {
		fmt.Fprintf(os.Stderr, "C10: cmd/bondmachine does not build: %v\n", err)
		os.Exit(2)
	}
	ks := []int{2, 3}
	type job struct {
		s state
		c cliCase
	}
	var jobs []job
	for _, k := range ks {
		s, _ := cliMachine(k)
		for _, flag := range []string{"-del-inputs", "-del-outputs", "-del-bonds"} {
			lists := cliLists(k)
			if flag == "-del-bonds" {
				// bond ids are slots of the internal input list (2k of them): all lists of length 1..2 over {0..2k}
				lists = nil
				for a := 0; a <= 2*k; a++ {
					lists = append(lists, []string{strconv.Itoa(a)})
					for b := 0; b <= 2*k; b++ {
						lists = append(lists, []string{strconv.Itoa(a), strconv.Itoa(b)})
					}
				}
			}
			for _, l := range lists {
				jobs = append(jobs, job{s, cliCase{k, flag, l}})
			}
		}
	}
	type res struct{ class, detail string }
	results := make([]res, len(jobs))
	var wg sync.WaitGroup
	ch := make(chan int)
	for w := 0; w < 8; w++ {
		wg.Add(1)
		go func(w int) {
			defer wg.Done()
			dir := filepath.Join(scratch, fmt.Sprint("w", w))
			os.MkdirAll(dir, 0o755)
			for i := range ch {
				c, d := runCLICase(bin, dir, jobs[i].s, jobs[i].c)
				results[i] = res{c, d}
			}
		}(w)
	}
	for i := range jobs {
		ch <- i
	}
	close(ch)
	wg.Wait()
	seen := map[string]bool{}
	multi := 0
	for i, r := range results {
		if len(jobs[i].c.List) > 1 {
			multi++
		}
		if r.class == "" {
			continue
		}
		sig := "C10|cli" + jobs[i].c.Flag + "|" + r.class
		if seen[sig] {
			continue
		}
		seen[sig] = true
		run.Report(sig, fmt.Sprintf("bondmachine %s %s on the fully bonded %d-in/%d-out machine: %s", jobs[i].c.Flag, strings.Join(jobs[i].c.List, ","), jobs[i].c.K, jobs[i].c.K, r.detail),
			map[string]any{"cli": jobs[i].c})
	}
	run.Set("cli_invocations", len(jobs))
	run.Set("cli_invocations_naming_several_ids", multi)
	run.Add("traces_validated_against_impl", len(jobs))
}
