// C10 — topology edits never corrupt untouched bonds.
// Explicit-state BFS over edit histories on the real *bondmachine.Bondmachine, in lock-step with a
// reference model that tracks bonds between *named* endpoints.
package main

import (
	"time"
	"encoding/json"
	"fmt"
	"os"
	"sort"
	"strconv"
	"strings"
	"sync"
	"sync/atomic"

	"verif/engines/xs"
	"verif/lib/vlib"

	"github.com/BondMachineHQ/BondMachine/pkg/bondmachine"
	"github.com/BondMachineHQ/BondMachine/pkg/procbuilder"
)

// ---- reference model -------------------------------------------------------------------------

type ref struct {
	Ins   []string          // internal inputs (consumers): o<k>, p<k>i<j>
	Outs  []string          // internal outputs (producers): i<k>, p<k>o<j>
	Bonds map[string]string // consumer name -> producer name
	NIn   int               // external inputs
	NOut  int               // external outputs
	Procs [][2]int          // per processor (N,M)
}

func (r *ref) clone() *ref {
	n := &ref{Ins: append([]string{}, r.Ins...), Outs: append([]string{}, r.Outs...), Bonds: map[string]string{},
		NIn: r.NIn, NOut: r.NOut, Procs: append([][2]int{}, r.Procs...)}
	for k, v := range r.Bonds {
		n.Bonds[k] = v
	}
	return n
}

func has(l []string, s string) bool {
	for _, x := range l {
		if x == s {
			return true
		}
	}
	return false
}

func remove(l []string, s string) []string {
	var o []string
	for _, x := range l {
		if x != s {
			o = append(o, x)
		}
	}
	return o
}

// renumber external port names of the given kind ("i" or "o") above idx
func renum(name, kind string, idx int) string {
	if strings.HasPrefix(name, kind) {
		if k, err := strconv.Atoi(name[1:]); err == nil && k > idx {
			return kind + strconv.Itoa(k-1)
		}
	}
	return name
}

type op struct {
	Kind string   `json:"kind"`
	Arg  int      `json:"arg,omitempty"`
	Ends []string `json:"ends,omitempty"`
}

func (o op) String() string {
	switch o.Kind {
	case "add_bond", "bench", "benchv2":
		return o.Kind + "(" + strings.Join(o.Ends, ",") + ")"
	case "add_input", "add_output":
		return o.Kind
	}
	return fmt.Sprintf("%s(%d)", o.Kind, o.Arg)
}

// apply the documented meaning of o to the reference; wantErr says the API must return an error.
func (r *ref) apply(o op, domains [][2]int, delBondName string) (wantErr bool) {
	switch o.Kind {
	case "add_input":
		r.Outs = append(r.Outs, "i"+strconv.Itoa(r.NIn))
		r.NIn++
	case "add_output":
		r.Ins = append(r.Ins, "o"+strconv.Itoa(r.NOut))
		r.NOut++
	case "add_processor":
		if o.Arg >= len(domains) {
			return true
		}
		p := len(r.Procs)
		d := domains[o.Arg]
		for i := 0; i < d[0]; i++ {
			r.Ins = append(r.Ins, fmt.Sprintf("p%di%d", p, i))
		}
		for i := 0; i < d[1]; i++ {
			r.Outs = append(r.Outs, fmt.Sprintf("p%do%d", p, i))
		}
		r.Procs = append(r.Procs, d)
	case "add_bond":
		a, b := o.Ends[0], o.Ends[1]
		if has(r.Ins, a) && has(r.Outs, b) {
			r.Bonds[a] = b
		} else if has(r.Ins, b) && has(r.Outs, a) {
			r.Bonds[b] = a
		}
	case "del_bond":
		if o.Arg >= len(r.Ins) {
			return true
		}
		delete(r.Bonds, delBondName)
	case "del_input":
		if o.Arg >= r.NIn {
			return true
		}
		name := "i" + strconv.Itoa(o.Arg)
		r.Outs = remove(r.Outs, name)
		nb := map[string]string{}
		for c, p := range r.Bonds {
			if p == name {
				continue
			}
			nb[c] = renum(p, "i", o.Arg)
		}
		r.Bonds = nb
		for i := range r.Outs {
			r.Outs[i] = renum(r.Outs[i], "i", o.Arg)
		}
		r.NIn--
	case "del_output":
		if o.Arg >= r.NOut {
			return true
		}
		name := "o" + strconv.Itoa(o.Arg)
		r.Ins = remove(r.Ins, name)
		nb := map[string]string{}
		for c, p := range r.Bonds {
			if c == name {
				continue
			}
			nb[renum(c, "o", o.Arg)] = p
		}
		r.Bonds = nb
		for i := range r.Ins {
			r.Ins[i] = renum(r.Ins[i], "o", o.Arg)
		}
		r.NOut--
	case "bench", "benchv2":
		if !(has(r.Outs, o.Ends[0]) && has(r.Outs, o.Ends[1])) {
			return true
		}
		p := len(r.Procs)
		r.Ins = append(r.Ins, fmt.Sprintf("p%di0", p), fmt.Sprintf("p%di1", p))
		r.Outs = append(r.Outs, fmt.Sprintf("p%do0", p))
		r.Procs = append(r.Procs, [2]int{2, 1})
		r.Bonds[fmt.Sprintf("p%di0", p)] = o.Ends[0]
		r.Bonds[fmt.Sprintf("p%di1", p)] = o.Ends[1]
		on := "o" + strconv.Itoa(r.NOut)
		r.Ins = append(r.Ins, on)
		r.NOut++
		r.Bonds[on] = fmt.Sprintf("p%do0", p)
	}
	return false
}

// ---- implementation side ---------------------------------------------------------------------

type state struct {
	bm *bondmachine.Bondmachine
	rf *ref
}

func copyBM(b *bondmachine.Bondmachine) *bondmachine.Bondmachine {
	n := new(bondmachine.Bondmachine)
	n.Rsize = b.Rsize
	n.Domains = append([]*procbuilder.Machine{}, b.Domains...)
	n.Processors = append([]int{}, b.Processors...)
	n.Inputs, n.Outputs = b.Inputs, b.Outputs
	n.Internal_inputs = append([]bondmachine.Bond{}, b.Internal_inputs...)
	n.Internal_outputs = append([]bondmachine.Bond{}, b.Internal_outputs...)
	n.Links = append([]int{}, b.Links...)
	n.Shared_objects = append([]bondmachine.Shared_instance{}, b.Shared_objects...)
	n.Shared_links = make([]bondmachine.Shared_instance_list, len(b.Shared_links))
	for i := range b.Shared_links {
		n.Shared_links[i] = append(bondmachine.Shared_instance_list{}, b.Shared_links[i]...)
	}
	return n
}

func domNM(b *bondmachine.Bondmachine) [][2]int {
	var d [][2]int
	for _, m := range b.Domains {
		d = append(d, [2]int{int(m.N), int(m.M)})
	}
	return d
}

func key(s state) string {
	b := s.bm
	var sb strings.Builder
	fmt.Fprintf(&sb, "%d|%d|", b.Inputs, b.Outputs)
	for _, p := range b.Processors {
		if p < len(b.Domains) {
			fmt.Fprintf(&sb, "%d.%d,", b.Domains[p].N, b.Domains[p].M)
		} else {
			fmt.Fprintf(&sb, "?%d,", p)
		}
	}
	sb.WriteString("|")
	for _, x := range b.Internal_inputs {
		fmt.Fprintf(&sb, "%d.%d.%d,", x.Map_to, x.Res_id, x.Ext_id)
	}
	sb.WriteString("|")
	for _, x := range b.Internal_outputs {
		fmt.Fprintf(&sb, "%d.%d.%d,", x.Map_to, x.Res_id, x.Ext_id)
	}
	sb.WriteString("|")
	for _, x := range b.Links {
		fmt.Fprintf(&sb, "%d,", x)
	}
	fmt.Fprintf(&sb, "|%d|%d", len(b.Shared_links), len(b.Domains))
	return sb.String()
}

// wellformed + agreement with the reference; returns "" or a (class, detail) description
func inv(s state) (string, string) {
	b, r := s.bm, s.rf
	if len(b.Links) != len(b.Internal_inputs) {
		return "links-len", fmt.Sprintf("len(Links)=%d len(Internal_inputs)=%d", len(b.Links), len(b.Internal_inputs))
	}
	for i, l := range b.Links {
		if l < -1 || l >= len(b.Internal_outputs) {
			return "link-range", fmt.Sprintf("Links[%d]=%d with %d internal outputs", i, l, len(b.Internal_outputs))
		}
	}
	if b.Inputs != r.NIn || b.Outputs != r.NOut {
		return "ext-count", fmt.Sprintf("Inputs=%d Outputs=%d, expected %d %d", b.Inputs, b.Outputs, r.NIn, r.NOut)
	}
	if len(b.Processors) != len(r.Procs) {
		return "proc-count", fmt.Sprintf("%d processors, expected %d", len(b.Processors), len(r.Procs))
	}
	for i, d := range b.Processors {
		if d < 0 || d >= len(b.Domains) {
			return "proc-domain", fmt.Sprintf("processor %d has domain %d of %d", i, d, len(b.Domains))
		}
		if int(b.Domains[d].N) != r.Procs[i][0] || int(b.Domains[d].M) != r.Procs[i][1] {
			return "proc-shape", fmt.Sprintf("processor %d shape", i)
		}
	}
	if len(b.Shared_links) != len(b.Processors) {
		return "shared-links-len", fmt.Sprintf("len(Shared_links)=%d processors=%d", len(b.Shared_links), len(b.Processors))
	}
	ins := b.List_internal_inputs()
	outs := b.List_internal_outputs()
	if !sameSet(ins, r.Ins) {
		return "endpoint-inputs", fmt.Sprintf("internal inputs %v, expected %v", ins, r.Ins)
	}
	if !sameSet(outs, r.Outs) {
		return "endpoint-outputs", fmt.Sprintf("internal outputs %v, expected %v", outs, r.Outs)
	}
	if !sameSet(b.List_inputs(), extNames("i", r.NIn)) || !sameSet(b.List_outputs(), extNames("o", r.NOut)) {
		return "ext-names", "List_inputs/List_outputs disagree with counts"
	}
	got := map[string]string{}
	for _, v := range b.List_bonds() {
		p := strings.Split(v, ",")
		if len(p) != 2 {
			return "bond-format", v
		}
		if _, dup := got[p[1]]; dup {
			return "bond-dup", v
		}
		got[p[1]] = p[0]
	}
	if len(got) != len(r.Bonds) {
		return "bonds", fmt.Sprintf("bonds %v, expected %v", got, r.Bonds)
	}
	for c, p := range r.Bonds {
		if got[c] != p {
			return "bonds", fmt.Sprintf("bonds %v, expected %v", got, r.Bonds)
		}
	}
	if b.EnumBonds() != len(r.Bonds) {
		return "enum-bonds", fmt.Sprintf("EnumBonds=%d expected %d", b.EnumBonds(), len(r.Bonds))
	}
	return "", ""
}

func extNames(k string, n int) []string {
	o := []string{}
	for i := 0; i < n; i++ {
		o = append(o, k+strconv.Itoa(i))
	}
	return o
}

func sameSet(a, b []string) bool {
	if len(a) != len(b) {
		return false
	}
	x := append([]string{}, a...)
	y := append([]string{}, b...)
	sort.Strings(x)
	sort.Strings(y)
	for i := range x {
		if x[i] != y[i] {
			return false
		}
	}
	return true
}

func applyImpl(b *bondmachine.Bondmachine, o op) (err error, panicked any) {
	defer func() {
		if p := recover(); p != nil {
			panicked = p
		}
	}()
	switch o.Kind {
	case "add_input":
		_, err = b.Add_input()
	case "add_output":
		_, err = b.Add_output()
	case "add_processor":
		_, err = b.Add_processor(o.Arg)
	case "add_bond":
		b.Add_bond(o.Ends)
	case "del_bond":
		err = b.Del_bond(o.Arg)
	case "del_input":
		err = b.Del_input(o.Arg)
	case "del_output":
		err = b.Del_output(o.Arg)
	case "bench":
		err = b.Attach_benchmark_core(o.Ends)
	case "benchv2":
		err = b.AttachBenchmarkCoreV2(o.Ends)
	}
	return
}

// ---- compact state encoding (states are stored as strings; decoded on expansion) -------------

var benchDomain = newMachine(2, 1)

type cstate string

func encode(s state) cstate {
	b, r := s.bm, s.rf
	var sb strings.Builder
	sb.WriteString(key(s))
	sb.WriteString("#")
	for _, p := range b.Processors {
		fmt.Fprintf(&sb, "%d,", p)
	}
	sb.WriteString("#")
	sb.WriteString(strings.Join(r.Ins, ","))
	sb.WriteString("#")
	sb.WriteString(strings.Join(r.Outs, ","))
	sb.WriteString("#")
	ks := make([]string, 0, len(r.Bonds))
	for c, p := range r.Bonds {
		ks = append(ks, c+"<"+p)
	}
	sort.Strings(ks)
	sb.WriteString(strings.Join(ks, ","))
	fmt.Fprintf(&sb, "#%d#%d#", r.NIn, r.NOut)
	for _, p := range r.Procs {
		fmt.Fprintf(&sb, "%d.%d,", p[0], p[1])
	}
	return cstate(sb.String())
}

func splitNE(s, sep string) []string {
	if s == "" {
		return nil
	}
	return strings.Split(strings.TrimSuffix(s, sep), sep)
}

func decode(c cstate) state {
	parts := strings.Split(string(c), "#")
	kp := strings.Split(parts[0], "|")
	b := new(bondmachine.Bondmachine)
	b.Rsize = 8
	b.Inputs, _ = strconv.Atoi(kp[0])
	b.Outputs, _ = strconv.Atoi(kp[1])
	bonds := func(s string) []bondmachine.Bond {
		o := []bondmachine.Bond{}
		for _, x := range splitNE(s, ",") {
			f := strings.Split(x, ".")
			a, _ := strconv.Atoi(f[0])
			r, _ := strconv.Atoi(f[1])
			e, _ := strconv.Atoi(f[2])
			o = append(o, bondmachine.Bond{Map_to: uint8(a), Res_id: r, Ext_id: e})
		}
		return o
	}
	b.Internal_inputs = bonds(kp[3])
	b.Internal_outputs = bonds(kp[4])
	b.Links = []int{}
	for _, x := range splitNE(kp[5], ",") {
		v, _ := strconv.Atoi(x)
		b.Links = append(b.Links, v)
	}
	nsl, _ := strconv.Atoi(kp[6])
	nd, _ := strconv.Atoi(kp[7])
	b.Shared_links = make([]bondmachine.Shared_instance_list, nsl)
	for i := range b.Shared_links {
		b.Shared_links[i] = make([]int, 0)
	}
	b.Domains = []*procbuilder.Machine{dom0, dom1}
	for len(b.Domains) < nd {
		b.Domains = append(b.Domains, benchDomain)
	}
	b.Processors = []int{}
	for _, x := range splitNE(parts[1], ",") {
		v, _ := strconv.Atoi(x)
		b.Processors = append(b.Processors, v)
	}
	r := &ref{Bonds: map[string]string{}}
	r.Ins = splitNE(parts[2], ",")
	r.Outs = splitNE(parts[3], ",")
	for _, x := range splitNE(parts[4], ",") {
		f := strings.Split(x, "<")
		r.Bonds[f[0]] = f[1]
	}
	r.NIn, _ = strconv.Atoi(parts[5])
	r.NOut, _ = strconv.Atoi(parts[6])
	for _, x := range splitNE(parts[7], ",") {
		f := strings.Split(x, ".")
		a, _ := strconv.Atoi(f[0])
		c, _ := strconv.Atoi(f[1])
		r.Procs = append(r.Procs, [2]int{a, c})
	}
	return state{b, r}
}

var dom0, dom1 = newMachine(1, 1), newMachine(2, 1)

type limits struct{ maxIn, maxOut, maxProc, depth int }

func enabledOps(s state, lim limits) []op {
	b := s.bm
	var ops []op
	if b.Inputs < lim.maxIn {
		ops = append(ops, op{Kind: "add_input"})
	}
	if b.Outputs < lim.maxOut {
		ops = append(ops, op{Kind: "add_output"})
	}
	if len(b.Processors) < lim.maxProc {
		ops = append(ops, op{Kind: "add_processor", Arg: 0}, op{Kind: "add_processor", Arg: 1})
	}
	// one out-of-range domain id: must be an error, not a state change
	ops = append(ops, op{Kind: "add_processor", Arg: len(b.Domains)})
	ins, outs := b.List_internal_inputs(), b.List_internal_outputs()
	for _, i := range ins {
		for _, o := range outs {
			ops = append(ops, op{Kind: "add_bond", Ends: []string{i, o}}, op{Kind: "add_bond", Ends: []string{o, i}})
		}
	}
	// ill-sorted endpoint pairs (input,input) / (output,output) / unknown names: must change nothing
	if len(ins) >= 2 {
		ops = append(ops, op{Kind: "add_bond", Ends: []string{ins[0], ins[1]}})
	}
	if len(outs) >= 2 {
		ops = append(ops, op{Kind: "add_bond", Ends: []string{outs[0], outs[1]}})
	}
	if len(ins) >= 1 {
		ops = append(ops, op{Kind: "add_bond", Ends: []string{ins[0], "p9o9"}})
	}
	for i := 0; i <= len(b.Links); i++ { // includes one out-of-range id
		ops = append(ops, op{Kind: "del_bond", Arg: i})
	}
	for i := 0; i <= b.Inputs; i++ {
		ops = append(ops, op{Kind: "del_input", Arg: i})
	}
	for i := 0; i <= b.Outputs; i++ {
		ops = append(ops, op{Kind: "del_output", Arg: i})
	}
	if len(b.Processors) < lim.maxProc && b.Outputs < lim.maxOut {
		for _, a := range outs {
			for _, c := range outs {
				ops = append(ops, op{Kind: "bench", Ends: []string{a, c}}, op{Kind: "benchv2", Ends: []string{a, c}})
			}
		}
		if len(ins) > 0 && len(outs) > 0 {
			ops = append(ops, op{Kind: "bench", Ends: []string{ins[0], outs[0]}})
		}
	}
	return ops
}

func newMachine(n, m uint8) *procbuilder.Machine {
	mc := new(procbuilder.Machine)
	mc.Arch.Rsize = 8
	mc.Arch.R = 1
	mc.Arch.N = n
	mc.Arch.M = m
	mc.Arch.O = 2
	mc.Arch.Modes = []string{"ha"}
	return mc
}

func initial() state {
	b := new(bondmachine.Bondmachine)
	b.Rsize = 8
	b.Domains = []*procbuilder.Machine{dom0, dom1}
	b.Init()
	return state{b, &ref{Bonds: map[string]string{}}}
}

type replay struct {
	Ops []op     `json:"ops"`
	CLI *cliCase `json:"cli,omitempty"`
}

func main() {
	run := vlib.Start("C10", "model_checking")
	if run.Replay != "" {
		doReplay(run)
		return
	}
	lim := limits{2, 2, 2, 7}
	if run.Thorough() {
		lim = limits{3, 3, 3, 7}
	}
	if v := os.Getenv("C10_DEPTH"); v != "" {
		lim.depth, _ = strconv.Atoi(v)
	}
	var traces int64
	var mu sync.Mutex
	opKinds := map[string]int{}
	var ex *xs.Explorer[cstate]
	report := func(id int, o *op, class, detail string) {
		path := ex.Path(id)
		var ops []op
		for _, l := range path {
			var x op
			json.Unmarshal([]byte(l), &x)
			ops = append(ops, x)
		}
		kind := "state"
		if o != nil {
			ops = append(ops, *o)
			kind = o.Kind
		}
		names := []string{}
		for _, x := range ops {
			names = append(names, x.String())
		}
		run.Report("C10|"+kind+"|"+class, fmt.Sprintf("after %s: %s", strings.Join(names, " ; "), detail), replay{Ops: ops})
	}
	ex = &xs.Explorer[cstate]{
		Key:       func(c cstate) string { return string(c[:strings.Index(string(c), "#")]) },
		MaxDepth:  lim.depth,
		MaxStates: 6000000,
		Succ: func(id int, cs cstate) []xs.Edge[cstate] {
			s := decode(cs)
			var out []xs.Edge[cstate]
			local := map[string]int{}
			// The stored state holds the exported fields only. Edits are therefore applied to a LIVE object: a fresh
			// machine on which the state's whole edit history (the shortest path found) is replayed with the real
			// methods, so that whatever the object keeps internally across edits is there when the next edit runs.
			var hist []op
			for _, l := range ex.Path(id) {
				var x op
				json.Unmarshal([]byte(l), &x)
				hist = append(hist, x)
			}
			live := func(extra ...op) *bondmachine.Bondmachine {
				b := initial().bm
				for _, x := range hist {
					applyImpl(b, x)
				}
				for _, x := range extra {
					applyImpl(b, x)
				}
				return b
			}
			if lv := live(); key(state{lv, s.rf}) != key(s) {
				report(id, nil, "history-dependent-state", "replaying the edit history on a fresh machine does not give the machine the history gave step by step")
				return nil
			}
			// key-preserving detours: delete the last external input (output) and add one again. When that leaves the
			// machine unchanged (the deleted endpoint was unbonded), every later edit must act exactly as without it.
			var detours [][]op
			if len(hist)+3 <= lim.depth+2 {
				for _, d := range [][]op{{{Kind: "del_input", Arg: s.bm.Inputs - 1}, {Kind: "add_input"}}, {{Kind: "del_output", Arg: s.bm.Outputs - 1}, {Kind: "add_output"}}} {
					if d[0].Arg < 0 {
						continue
					}
					if dv := live(d...); key(state{dv, s.rf}) == key(s) {
						detours = append(detours, d)
					}
				}
			}
			for _, o := range enabledOps(s, lim) {
				nb := live()
				nr := s.rf.clone()
				delName := ""
				if o.Kind == "del_bond" {
					if l := nb.List_internal_inputs(); o.Arg < len(l) {
						delName = l[o.Arg]
					}
				}
				doms := domNM(nb)
				wantErr := nr.apply(o, doms, delName)
				err, pan := applyImpl(nb, o)
				atomic.AddInt64(&traces, 1)
				local[o.Kind]++
				if pan != nil {
					report(id, &o, "panic", fmt.Sprint(pan))
					continue
				}
				if wantErr && err == nil {
					report(id, &o, "no-error", "out-of-range or ill-sorted argument accepted without error")
					continue
				}
				if !wantErr && err != nil {
					report(id, &o, "spurious-error", err.Error())
					continue
				}
				ns := state{nb, nr}
				if wantErr {
					// must be a no-op
					if key(ns) != key(s) {
						report(id, &o, "error-changed-state", "edit returned an error but changed the machine")
					}
					continue
				}
				if c, d := inv(ns); c != "" {
					report(id, &o, c, d)
					continue
				}
				for _, dt := range detours {
					db := live(dt...)
					derr, dpan := applyImpl(db, o)
					atomic.AddInt64(&traces, 1)
					if dpan != nil || (derr == nil) != (err == nil) || key(state{db, nr}) != key(ns) {
						report(id, &o, "history-dependent", fmt.Sprintf("the same edit gives a different machine when %s ; %s (which leave the machine unchanged) were done first: %v", dt[0].String(), dt[1].String(), dpan))
						break
					}
				}
				lb, _ := json.Marshal(o)
				out = append(out, xs.Edge[cstate]{Label: string(lb), Next: encode(ns)})
			}
			mu.Lock()
			for k, v := range local {
				opKinds[k] += v
			}
			mu.Unlock()
			return out
		},
	}
	ex.Run(encode(initial()))
	run.Set("states", ex.States)
	run.Set("transitions", ex.Transitions)
	run.Set("traces_validated_against_impl", int(traces))
	run.Set("max_depth", ex.Depth)
	run.Set("exhaustive", ex.Exhaustive())
	run.Set("closed", ex.Closed())
	run.Set("cap_hit", ex.CapHit)
	run.Set("bounds", map[string]int{"max_inputs": lim.maxIn, "max_outputs": lim.maxOut, "max_processors": lim.maxProc, "depth": lim.depth})
	run.Set("edits_by_kind", opKinds)
	tCLI := time.Now()
	cliStage(run)
	run.Set("cli_stage_wall_s", time.Since(tCLI).Seconds())
	// samples: a few deepest histories
	for id := ex.States - 1; id >= 0 && id > ex.States-4; id-- {
		p := ex.Path(id)
		var names []string
		for _, l := range p {
			var x op
			json.Unmarshal([]byte(l), &x)
			names = append(names, x.String())
		}
		run.Sample(strings.Join(names, " ; "))
	}
	run.Assume("edit arguments are the ones the CLI can pass: non-negative ids, endpoint names as strings")
	run.Assume("every transition is the real method on a copy of the real struct; the reference model is the set of bonds between named endpoints")
	run.Finish()
}

func doReplay(run *vlib.Run) {
	var rp replay
	if _, err := vlib.LoadReplay(run.Replay, &rp); err != nil {
		fmt.Println("cannot load replay:", err)
		os.Exit(2)
	}
	if rp.CLI != nil {
		scratch, cleanup := vlib.Scratch("c10")
		defer cleanup()
		bin, err := buildCLI(scratch)
		if err != nil {
			fmt.Println("cmd/bondmachine does not build:", err)
			os.Exit(2)
		}
		ms, _ := cliMachine(rp.CLI.K)
		c, d := runCLICase(bin, scratch, ms, *rp.CLI)
		fmt.Printf("bondmachine %s %s on the fully bonded %d-in/%d-out machine: %s %s\n", rp.CLI.Flag, strings.Join(rp.CLI.List, ","), rp.CLI.K, rp.CLI.K, c, d)
		if c != "" {
			run.Report("C10|cli"+rp.CLI.Flag+"|"+c, d, rp)
		}
		run.Set("states", 1)
		run.Set("transitions", 1)
		run.Set("traces_validated_against_impl", 1)
		run.Finish()
		return
	}
	s := initial()
	for i, o := range rp.Ops {
		delName := ""
		if o.Kind == "del_bond" {
			if l := s.bm.List_internal_inputs(); o.Arg < len(l) {
				delName = l[o.Arg]
			}
		}
		before := key(s)
		wantErr := s.rf.apply(o, domNM(s.bm), delName)
		err, pan := applyImpl(s.bm, o)
		fmt.Printf("step %d %s err=%v panic=%v\n", i, o, err, pan)
		if pan != nil {
			run.Report("C10|"+o.Kind+"|panic", fmt.Sprint(pan), rp)
			break
		}
		if wantErr != (err != nil) {
			run.Report("C10|"+o.Kind+"|error-mismatch", fmt.Sprintf("wantErr=%v err=%v", wantErr, err), rp)
			break
		}
		if wantErr {
			if key(s) != before {
				run.Report("C10|"+o.Kind+"|error-changed-state", "", rp)
				break
			}
			continue
		}
		if c, d := inv(s); c != "" {
			run.Report("C10|"+o.Kind+"|"+c, d, rp)
			break
		}
	}
	fmt.Println("bonds:", s.bm.List_bonds())
	run.Set("states", len(rp.Ops)+1)
	run.Set("transitions", len(rp.Ops))
	run.Set("traces_validated_against_impl", len(rp.Ops))
	run.Finish()
}
