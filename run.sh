#!/bin/bash
# usage: run.sh <ID> <quick|thorough> [extra args]   — builds the check against /repo's working tree and runs it
set -u
cd /verif
. /verif/env.sh
id="$1"; tier="${2:-quick}"; shift; shift || true
lc=$(echo "$id" | tr 'A-Z' 'a-z')
mkdir -p /verif/bin /verif/evidence
if [ -x "/verif/checks/$lc/run.sh" ]; then
  exec "/verif/checks/$lc/run.sh" "$tier" "$@"
fi
ov=""; out="/verif/bin/$lc"
if [ -n "${VERIF_OVERLAY:-}" ]; then ov="-overlay=$VERIF_OVERLAY"; out="/verif/bin/$lc.mut"; fi
if ! go build $ov -o "$out" "./checks/$lc" 2> "/verif/bin/$lc.buildlog"; then
  cat "/verif/bin/$lc.buildlog" >&2
  echo "BUILD-FAILED check=$id (the check could not be built against the current /repo tree)" >&2
  exit 2
fi
exec "$out" -tier "$tier" "$@"
