#!/bin/bash
# One-time setup after a fresh restore (offline): warm the Go build cache and pre-build every check.
cd /verif
. /verif/env.sh
mkdir -p bin evidence .cache
for d in checks/*/; do
  n=$(basename "$d")
  if [ -f "$d/run.sh" ]; then
    continue # checks with their own runner instrument /repo and build themselves on every run
  fi
  if [ -f "$d/main.go" ]; then
    go build -o "bin/$n" "./checks/$n" || echo "setup: build of $n failed" >&2
  fi
done
exit 0
