# sourced by every script: offline Go environment
export GOFLAGS=-mod=mod GOPROXY=off GOSUMDB=off GOTOOLCHAIN=local
export GOCACHE=/verif/.cache/go-build
export CARGO_NET_OFFLINE=true PIP_NO_INDEX=1
export GOMEMLIMIT=20GiB
