// Package bmsys builds small multi-processor BondMachines from per-processor assembly programs and
// runs them on both back ends: the generated Verilog (whole file set, top module `bondmachine`,
// interpreted by vsim) and the Go simulator (bondmachine.VM), with snapshot/restore on both so that
// explicit-state search can use them as transition systems.
package bmsys

import (
	"fmt"
	"sort"
	"strconv"
	"strings"

	"verif/engines/vsim"
	"verif/lib/bmgen"

	"github.com/BondMachineHQ/BondMachine/pkg/bondmachine"
	"github.com/BondMachineHQ/BondMachine/pkg/procbuilder"
	"github.com/BondMachineHQ/BondMachine/pkg/simbox"
)

type Proc struct {
	Spec    bmgen.ArchSpec `json:"spec"`
	Program []string       `json:"program"`
}

type System struct {
	Procs  []Proc      `json:"procs"`
	ExtIn  int         `json:"ext_in"`
	ExtOut int         `json:"ext_out"`
	Bonds  [][2]string `json:"bonds"` // endpoint names as the CLI uses them: i0, o0, p0i1, p1o0
	// DomainOf (optional): Procs are then DOMAINS and processor i is an instance of domain DomainOf[i] (several
	// processors may share a domain, as `bondmachine -add-domains A,B -add-processor 0 -add-processor 0 ...` builds them).
	DomainOf []int `json:"domain_of,omitempty"`
}

// Build creates the BondMachine through the real API (one domain per processor).
func Build(s System) (*bondmachine.Bondmachine, error) {
	b := new(bondmachine.Bondmachine)
	rs := uint8(8)
	if len(s.Procs) > 0 {
		rs = s.Procs[0].Spec.Rsize
	}
	b.Rsize = rs
	b.Init()
	for i, p := range s.Procs {
		m, err := bmgen.NewMachine(p.Spec)
		if err != nil {
			return nil, err
		}
		prog, err := m.Arch.Assembler([]byte(strings.Join(p.Program, "\n") + "\n"))
		if err != nil {
			return nil, fmt.Errorf("processor %d: %v", i, err)
		}
		if len(prog.Slocs) > 1<<p.Spec.O {
			return nil, fmt.Errorf("processor %d: program longer than ROM", i)
		}
		m.Program = prog
		b.Domains = append(b.Domains, m)
		if s.DomainOf == nil {
			if _, err := b.Add_processor(len(b.Domains) - 1); err != nil {
				return nil, err
			}
		}
	}
	for _, d := range s.DomainOf {
		if _, err := b.Add_processor(d); err != nil {
			return nil, err
		}
	}
	for i := 0; i < s.ExtIn; i++ {
		b.Add_input()
	}
	for i := 0; i < s.ExtOut; i++ {
		b.Add_output()
	}
	for _, bd := range s.Bonds {
		before := b.EnumBonds()
		b.Add_bond([]string{bd[0], bd[1]})
		if b.EnumBonds() != before+1 {
			return nil, fmt.Errorf("bond %v not created", bd)
		}
	}
	return b, nil
}

// ---- HDL side --------------------------------------------------------------------------------

type HDL struct {
	Sim      *vsim.Sim
	Clk, Rst vsim.SigID
	In       []vsim.SigID
	InValid  []vsim.SigID
	InRecv   []vsim.SigID
	Out      []vsim.SigID
	OutValid []vsim.SigID
	OutRecv  []vsim.SigID
	Pc       []vsim.SigID
	Regs     [][]vsim.SigID
	Initial  []byte
	Files    map[string]string
}

type NotSimulable struct{ Msg string }

func (e *NotSimulable) Error() string { return "not simulable: " + e.Msg }

func NewHDL(b *bondmachine.Bondmachine) (*HDL, error) {
	files, err := bmgen.RenderFiles(b, new(bondmachine.Config), "iverilog")
	if err != nil {
		return nil, &NotSimulable{err.Error()}
	}
	d, diags := vsim.Parse(files)
	for _, dg := range diags {
		return nil, &NotSimulable{fmt.Sprintf("%s %s:%d %s", dg.Class, dg.File, dg.Line, dg.Msg)}
	}
	sim, err := d.Elaborate("bondmachine", nil)
	if err != nil {
		return nil, &NotSimulable{err.Error()}
	}
	h := &HDL{Sim: sim, Files: files}
	var lerr error
	look := func(n string) vsim.SigID {
		id, ok := sim.Lookup(n)
		if !ok && lerr == nil {
			lerr = &NotSimulable{"signal " + n + " not found"}
		}
		return id
	}
	h.Clk, h.Rst = look("clk"), look("reset")
	for i := 0; i < b.Inputs; i++ {
		n := "i" + strconv.Itoa(i)
		h.In = append(h.In, look(n))
		h.InValid = append(h.InValid, look(n+"_valid"))
		h.InRecv = append(h.InRecv, look(n+"_received"))
	}
	for i := 0; i < b.Outputs; i++ {
		n := "o" + strconv.Itoa(i)
		h.Out = append(h.Out, look(n))
		h.OutValid = append(h.OutValid, look(n+"_valid"))
		h.OutRecv = append(h.OutRecv, look(n+"_received"))
	}
	for p, dom := range b.Processors {
		pre := fmt.Sprintf("a%d_inst.p%d_instance.", p, p)
		h.Pc = append(h.Pc, look(pre+"_pc"))
		var rg []vsim.SigID
		for r := 0; r < 1<<b.Domains[dom].R; r++ {
			rg = append(rg, look(pre+"_r"+strconv.Itoa(r)))
		}
		h.Regs = append(h.Regs, rg)
	}
	if lerr != nil {
		return nil, lerr
	}
	if err := sim.Init(); err != nil {
		return nil, &NotSimulable{err.Error()}
	}
	sim.Set(h.Rst, 0)
	sim.Set(h.Clk, 0)
	if err := sim.Posedge(h.Rst); err != nil {
		return nil, &NotSimulable{err.Error()}
	}
	sim.Posedge(h.Clk)
	sim.Negedge(h.Clk)
	sim.Negedge(h.Rst)
	h.Initial = append([]byte{}, sim.StateKey(nil)...)
	return h, nil
}

func (h *HDL) Clone() *HDL {
	n := *h
	n.Sim = h.Sim.Clone()
	return &n
}

func (h *HDL) Tick() error { return h.Sim.Posedge(h.Clk) }

// ---- simulator side --------------------------------------------------------------------------

type SIM struct {
	VM     *bondmachine.VM
	bm     *bondmachine.Bondmachine
	live   bool
	delays map[string]int32
}

// NewSIM creates a VM; launch=true starts the per-processor workers (needed to Step it).
func NewSIM(b *bondmachine.Bondmachine, launch bool) (*SIM, error) {
	return NewSIMDelays(b, launch, nil)
}

// NewSIMDelays is NewSIM with a fixed simulated delay (in ticks) per opcode name: each delay is a
// single-valued distribution, so the run stays deterministic.
func NewSIMDelays(b *bondmachine.Bondmachine, launch bool, delays map[string]int32) (*SIM, error) {
	vm := &bondmachine.VM{Bmach: b}
	if len(delays) > 0 {
		sd := simbox.NewSimDelays()
		for op, d := range delays {
			sd.OpcodeDelays[op] = simbox.DelayDistribution{d: 1.0}
		}
		vm.SimDelayMap = sd
	}
	if err := vm.Init(); err != nil {
		return nil, err
	}
	if launch {
		if err := vm.Launch_processors(nil); err != nil {
			return nil, err
		}
	}
	return &SIM{VM: vm, bm: b, live: launch, delays: delays}, nil
}

// Snapshot copies the state into a fresh, never-launched twin VM (no goroutines are created).
func (s *SIM) Snapshot() *bondmachine.VM {
	tw := &bondmachine.VM{Bmach: s.bm}
	tw.SimDelayMap = s.VM.SimDelayMap
	tw.Init()
	tw.CopyState(s.VM)
	for i, p := range s.VM.Processors { // fields CopyState leaves out
		tw.Processors[i].LastPc = p.LastPc
		tw.Processors[i].DelayCounter = p.DelayCounter
		if p.SimDelayArray == nil {
			tw.Processors[i].SimDelayArray = nil // CopyState turns nil into an empty slice, which Step then indexes
		}
	}
	return tw
}

func (s *SIM) Restore(tw *bondmachine.VM) {
	s.VM.CopyState(tw)
	for i, p := range tw.Processors {
		s.VM.Processors[i].LastPc = p.LastPc
		s.VM.Processors[i].DelayCounter = p.DelayCounter
		if p.SimDelayArray == nil {
			s.VM.Processors[i].SimDelayArray = nil
		}
	}
}

func (s *SIM) Step() error {
	_, err := s.VM.Step(nil)
	return err
}

func U64(v interface{}) uint64 {
	switch x := v.(type) {
	case uint8:
		return uint64(x)
	case uint16:
		return uint64(x)
	case uint32:
		return uint64(x)
	case uint64:
		return x
	case nil:
		return 0
	}
	return ^uint64(0)
}

func Boxed(rsize uint8, v uint64) interface{} {
	switch {
	case rsize <= 8:
		return uint8(v)
	case rsize <= 16:
		return uint16(v)
	case rsize <= 32:
		return uint32(v)
	}
	return v
}

func bools(sb *strings.Builder, l []bool) {
	for _, b := range l {
		if b {
			sb.WriteByte('1')
		} else {
			sb.WriteByte('0')
		}
	}
	sb.WriteByte(';')
}

func vals(sb *strings.Builder, l []interface{}) {
	for _, v := range l {
		fmt.Fprintf(sb, "%x,", U64(v))
	}
	sb.WriteByte(';')
}

// Key is a canonical encoding of everything that influences the VM's future behaviour
// (the absolute tick counter is excluded: it only labels reports).
func Key(vm *bondmachine.VM) string {
	var sb strings.Builder
	vals(&sb, vm.Inputs_regs)
	vals(&sb, vm.Outputs_regs)
	vals(&sb, vm.Internal_inputs_regs)
	vals(&sb, vm.Internal_outputs_regs)
	bools(&sb, vm.InputsValid)
	bools(&sb, vm.OutputsValid)
	bools(&sb, vm.InternalInputsValid)
	bools(&sb, vm.InternalOutputsValid)
	bools(&sb, vm.InputsRecv)
	bools(&sb, vm.OutputsRecv)
	bools(&sb, vm.InternalInputsRecv)
	bools(&sb, vm.InternalOutputsRecv)
	dk := make([]string, 0, len(vm.DeferredInstructions))
	for k := range vm.DeferredInstructions {
		dk = append(dk, k)
	}
	sort.Strings(dk)
	sb.WriteString(strings.Join(dk, ","))
	for _, p := range vm.Processors {
		sb.WriteString("|")
		sb.WriteString(ProcKey(p))
	}
	return sb.String()
}

func ProcKey(p *procbuilder.VM) string {
	var sb strings.Builder
	fmt.Fprintf(&sb, "%d;", p.Pc)
	vals(&sb, p.Registers)
	vals(&sb, p.Memory)
	vals(&sb, p.Inputs)
	vals(&sb, p.Outputs)
	bools(&sb, p.InputsValid)
	bools(&sb, p.OutputsValid)
	bools(&sb, p.InputsRecv)
	bools(&sb, p.OutputsRecv)
	ek := make([]string, 0, len(p.Extra_states))
	for k, v := range p.Extra_states {
		ek = append(ek, fmt.Sprintf("%s=%v", k, v))
	}
	sort.Strings(ek)
	sb.WriteString(strings.Join(ek, ","))
	sb.WriteByte(';')
	dk := make([]string, 0, len(p.DeferredInstructions))
	for k := range p.DeferredInstructions {
		dk = append(dk, k)
	}
	sort.Strings(dk)
	sb.WriteString(strings.Join(dk, ","))
	fmt.Fprintf(&sb, ";%d", p.DelayCounter)
	return sb.String()
}
