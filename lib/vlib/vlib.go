// Package vlib is the shared reporting layer of every check: tier/seed handling,
// evidence files, known-findings matching, VIOLATION / KNOWN-FINDING lines, replay files.
package vlib

import (
	"crypto/sha256"
	"encoding/hex"
	"encoding/json"
	"flag"
	"fmt"
	"io"
	"log"
	"os"
	"path/filepath"
	"sort"
	"strconv"
	"strings"
	"sync"
	"time"
)

const Root = "/verif"

// Out is where VIOLATION / KNOWN-FINDING / summary lines go (stdout unless SilenceStdout was called).
var Out io.Writer = os.Stdout

// SilenceStdout keeps the check's own report lines on the real stdout and sends everything the code
// under test prints with fmt.Print* (warnings, debug output) to /dev/null; log output is discarded too.
func SilenceStdout() {
	real := os.Stdout
	Out = real
	if dn, err := os.OpenFile(os.DevNull, os.O_WRONLY, 0); err == nil {
		os.Stdout = dn
	}
	log.SetOutput(io.Discard)
}

type Finding struct {
	Property  string `json:"property"`
	Signature string `json:"signature"`
	What      string `json:"what"`
}

type knownFile struct {
	Findings []Finding `json:"findings"`
	Fixed    []string  `json:"fixed"`
}

type Run struct {
	ID          string
	Tier        string
	Seed        int
	Level       string
	Replay      string
	start       time.Time
	mu          sync.Mutex
	Cov         map[string]any
	Assumptions []string
	known       map[string]Finding
	knownHit    map[string]int
	violSigs    map[string]string // signature -> replay path
	violOrder   []string
	samples     []any
	maxSamples  int
}

// Start parses the common flags (-tier, -replay) and environment (VERIF_TIER, VERIF_SEED).
func Start(id, level string) *Run {
	tier := flag.String("tier", "", "quick|thorough")
	replay := flag.String("replay", "", "replay file")
	flag.Parse()
	r := &Run{ID: id, Level: level, start: time.Now(), Cov: map[string]any{}, known: map[string]Finding{},
		knownHit: map[string]int{}, violSigs: map[string]string{}, maxSamples: 8}
	r.Tier = *tier
	if r.Tier == "" {
		r.Tier = os.Getenv("VERIF_TIER")
	}
	if r.Tier != "thorough" {
		r.Tier = "quick"
	}
	r.Replay = *replay
	if s := os.Getenv("VERIF_SEED"); s != "" {
		if v, err := strconv.Atoi(s); err == nil {
			r.Seed = v
		}
	}
	var kf knownFile
	if b, err := os.ReadFile(filepath.Join(Root, "known-findings.json")); err == nil {
		if err := json.Unmarshal(b, &kf); err != nil {
			fmt.Fprintln(os.Stderr, "known-findings.json unreadable:", err)
			os.Exit(2)
		}
	}
	for _, f := range kf.Findings {
		if f.Property == id {
			r.known[f.Signature] = f
		}
	}
	return r
}

func (r *Run) Thorough() bool { return r.Tier == "thorough" }

func (r *Run) Assume(s string) {
	r.mu.Lock()
	defer r.mu.Unlock()
	for _, a := range r.Assumptions {
		if a == s {
			return
		}
	}
	r.Assumptions = append(r.Assumptions, s)
}

// Sample records one explored case for the evidence file (bounded number kept).
func (r *Run) Sample(v any) {
	r.mu.Lock()
	defer r.mu.Unlock()
	if len(r.samples) < r.maxSamples {
		r.samples = append(r.samples, v)
	}
}

func (r *Run) Set(k string, v any) {
	r.mu.Lock()
	defer r.mu.Unlock()
	r.Cov[k] = v
}

func (r *Run) Add(k string, n int) {
	r.mu.Lock()
	defer r.mu.Unlock()
	cur, _ := r.Cov[k].(int)
	r.Cov[k] = cur + n
}

func (r *Run) Get(k string) int {
	r.mu.Lock()
	defer r.mu.Unlock()
	cur, _ := r.Cov[k].(int)
	return cur
}

// Report records a failing case. sig identifies the failure class (stable, specific); what is a
// human description; replay is any JSON-serialisable description sufficient to re-run the case.
// Returns true when the failure is a listed known finding.
func (r *Run) Report(sig, what string, replay any) bool {
	r.mu.Lock()
	defer r.mu.Unlock()
	if _, ok := r.known[sig]; ok {
		r.knownHit[sig]++
		return true
	}
	if _, ok := r.violSigs[sig]; ok {
		return false
	}
	h := sha256.Sum256([]byte(sig))
	dir := filepath.Join(Root, "replays", r.ID)
	os.MkdirAll(dir, 0o755)
	path := filepath.Join(dir, hex.EncodeToString(h[:6])+".json")
	b, _ := json.MarshalIndent(map[string]any{"property": r.ID, "signature": sig, "what": what, "replay": replay}, "", " ")
	os.WriteFile(path, b, 0o644)
	r.violSigs[sig] = path
	r.violOrder = append(r.violOrder, sig)
	fmt.Fprintf(Out, "VIOLATION property=%s replay=%s\n", r.ID, path)
	fmt.Fprintf(Out, "  signature: %s\n  what: %s\n", sig, what)
	return false
}

func (r *Run) Violations() int {
	r.mu.Lock()
	defer r.mu.Unlock()
	return len(r.violSigs)
}

// Finish writes the evidence file and exits 0/1.
func (r *Run) Finish() {
	r.mu.Lock()
	sigs := make([]string, 0, len(r.knownHit))
	for s := range r.knownHit {
		sigs = append(sigs, s)
	}
	sort.Strings(sigs)
	var khits []map[string]any
	for _, s := range sigs {
		fmt.Fprintf(Out, "KNOWN-FINDING: property=%s %s [%s] (%d cases)\n", r.ID, r.known[s].What, s, r.knownHit[s])
		khits = append(khits, map[string]any{"signature": s, "cases": r.knownHit[s]})
	}
	// known findings that did not reproduce are reported on stderr only (never an alarm)
	for s := range r.known {
		if r.knownHit[s] == 0 {
			fmt.Fprintf(os.Stderr, "note: known finding not reproduced in this run/tier: %s\n", s)
		}
	}
	if _, ok := r.Cov["samples"]; !ok {
		if len(r.samples) == 0 {
			r.samples = append(r.samples, "none recorded")
		}
		r.Cov["samples"] = r.samples
	}
	if khits != nil {
		r.Cov["known_findings_reproduced"] = khits
	}
	nviol := len(r.violSigs)
	if nviol > 0 {
		r.Cov["violation_signatures"] = r.violOrder
	}
	ev := map[string]any{
		"property_id": r.ID, "tier": r.Tier, "seed": r.Seed, "level": r.Level,
		"coverage": r.Cov, "assumptions": r.Assumptions, "wall_s": time.Since(r.start).Seconds(),
		"violations": nviol,
	}
	if r.Assumptions == nil {
		ev["assumptions"] = []string{}
	}
	r.mu.Unlock()
	if r.Replay == "" {
		b, _ := json.MarshalIndent(ev, "", " ")
		os.MkdirAll(filepath.Join(Root, "evidence"), 0o755)
		if err := os.WriteFile(filepath.Join(Root, "evidence", r.ID+".json"), append(b, '\n'), 0o644); err != nil {
			fmt.Fprintln(os.Stderr, "cannot write evidence:", err)
			os.Exit(2)
		}
	}
	fmt.Fprintf(Out, "%s tier=%s wall=%.1fs violations=%d known=%d %s\n", r.ID, r.Tier, time.Since(r.start).Seconds(), nviol, len(sigs), r.summary())
	if nviol > 0 {
		os.Exit(1)
	}
	os.Exit(0)
}

func (r *Run) summary() string {
	var parts []string
	for _, k := range []string{"states", "transitions", "traces_validated_against_impl", "evaluations", "distinct_nontrivial", "exhaustive"} {
		if v, ok := r.Cov[k]; ok {
			parts = append(parts, fmt.Sprintf("%s=%v", k, v))
		}
	}
	return strings.Join(parts, " ")
}

// LoadReplay reads the "replay" member of a replay file into v.
func LoadReplay(path string, v any) (sig string, err error) {
	b, err := os.ReadFile(path)
	if err != nil {
		return "", err
	}
	var w struct {
		Signature string          `json:"signature"`
		Replay    json.RawMessage `json:"replay"`
	}
	if err := json.Unmarshal(b, &w); err != nil {
		return "", err
	}
	return w.Signature, json.Unmarshal(w.Replay, v)
}

// Scratch returns a fresh scratch directory outside /repo and /verif and a cleanup function.
func Scratch(prefix string) (string, func()) {
	d, err := os.MkdirTemp("", "verif-"+prefix+"-")
	if err != nil {
		panic(err)
	}
	return d, func() { os.RemoveAll(d) }
}

// Get0 reads an int counter without locking (caller holds its own lock around Cov updates).
func (r *Run) Get0(k string) int {
	cur, _ := r.Cov[k].(int)
	return cur
}
