// Package bmgen builds procbuilder machines / BondMachines for the checks and renders their HDL
// file sets in memory by calling the same generator functions Bondmachine.Write_verilog calls.
package bmgen

import (
	"fmt"
	"sort"
	"strconv"

	"github.com/BondMachineHQ/BondMachine/pkg/bondmachine"
	"github.com/BondMachineHQ/BondMachine/pkg/procbuilder"
)

type ArchSpec struct {
	Rsize, R, N, M, L, O uint8
	Ops                  []string
	Modes                []string
	Threaded             int
	WordSize             uint8
	Shared               string
	// KeepOrder: the opcode list keeps the order of Ops (a machine JSON keeps file order on load); default: sorted by
	// name, as every front end does
	KeepOrder bool `json:"keep_order,omitempty"`
}

// OpByName returns the registered static opcode, or creates a dynamic one.
func OpByName(name string) (procbuilder.Opcode, error) {
	for _, op := range procbuilder.Allopcodes {
		if op.Op_get_name() == name {
			return op, nil
		}
	}
	if ok, err := procbuilder.EventuallyCreateInstruction(name); err != nil {
		return nil, err
	} else if ok {
		for _, op := range procbuilder.Allopcodes {
			if op.Op_get_name() == name {
				return op, nil
			}
		}
	}
	return nil, fmt.Errorf("unknown opcode %q", name)
}

func NewMachine(s ArchSpec) (*procbuilder.Machine, error) {
	m := new(procbuilder.Machine)
	a := &m.Arch
	a.Rsize, a.R, a.N, a.M, a.L, a.O = s.Rsize, s.R, s.N, s.M, s.L, s.O
	a.Modes = s.Modes
	if a.Modes == nil {
		a.Modes = []string{"ha"}
	}
	a.Threaded = s.Threaded
	a.WordSize = s.WordSize
	a.Shared_constraints = s.Shared
	ops := make([]procbuilder.Opcode, 0)
	seen := map[string]bool{}
	for _, n := range s.Ops {
		if seen[n] {
			continue
		}
		seen[n] = true
		op, err := OpByName(n)
		if err != nil {
			return nil, err
		}
		ops = append(ops, op)
	}
	if !s.KeepOrder {
		sort.Sort(procbuilder.ByName(ops))
	}
	a.Op = ops
	return m, nil
}

// SingleBM wraps one machine in a BondMachine with its N inputs and M outputs exported.
func SingleBM(m *procbuilder.Machine) *bondmachine.Bondmachine {
	b := new(bondmachine.Bondmachine)
	b.Rsize = m.Rsize
	b.Init()
	b.Domains = []*procbuilder.Machine{m}
	b.Add_processor(0)
	for i := 0; i < int(m.N); i++ {
		b.Add_input()
		b.Add_bond([]string{"i" + strconv.Itoa(i), "p0i" + strconv.Itoa(i)})
	}
	for i := 0; i < int(m.M); i++ {
		b.Add_output()
		b.Add_bond([]string{"o" + strconv.Itoa(i), "p0o" + strconv.Itoa(i)})
	}
	return b
}

// RenderFiles mirrors the loop of Bondmachine.Write_verilog (without touching the file system
// and without test bench / board files): arch_N.v, pN.v, pNrom.v, pNram.v, <so>N.v, bondmachine.v.
func RenderFiles(b *bondmachine.Bondmachine, conf *bondmachine.Config, flavor string) (files map[string]string, err error) {
	defer func() {
		if p := recover(); p != nil {
			err = fmt.Errorf("generator panic: %v", p)
		}
	}()
	files = map[string]string{}
	pConf := conf.ProcbuilderConfig()
	sharedHDLOps := ""
	for i, domID := range b.Processors {
		ri := new(procbuilder.RuntimeInfo)
		ri.Init()
		pConf.Runinfo = ri
		dom := b.Domains[domID]
		sharedlist := ""
		solist := b.Shared_links[i]
		for j, soID := range solist {
			sharedlist += b.Shared_objects[soID].String()
			if j != len(solist)-1 {
				sharedlist += ","
			}
		}
		dom.Arch.Shared_constraints = sharedlist
		is := strconv.Itoa(i)
		names := map[string]string{"processor": "p" + is, "rom": "p" + is + "rom", "ram": "p" + is + "ram"}
		dom.Conproc.CpID = uint32(i)
		dom.Conproc.SharedHDLOps = sharedHDLOps
		files["arch_"+is+".v"] = dom.Arch.Write_verilog("a"+is, names, flavor)
		files["p"+is+".v"] = dom.Arch.Conproc.Write_verilog(pConf, &dom.Arch, names["processor"], flavor)
		files["p"+is+"rom.v"] = dom.Arch.Rom.Write_verilog(dom, names["rom"], flavor)
		if int(dom.L) != 0 {
			files["p"+is+"ram.v"] = dom.Arch.Ram.Write_verilog(pConf, dom, names["ram"], flavor)
		}
		sharedHDLOps = dom.Arch.Conproc.SharedHDLOps
	}
	seq := map[string]int{}
	for i, so := range b.Shared_objects {
		sn := so.Shortname()
		n := sn + strconv.Itoa(seq[sn])
		files[n+".v"] = so.Write_verilog(b, i, n, flavor)
		seq[sn]++
	}
	files["bondmachine.v"] = b.Write_verilog_main(conf, "bondmachine", flavor)
	return files, nil
}
