#!/usr/bin/env python3
# usage: saveseed.py <ID> <seed-out-dir> <dest-name> <status> <note> [logs-name]
# Copies a verified seed (patch.diff, demo/, meta.json) to /verif/seeded/<dest-name>/ and records the check result
# taken from the last seedcheck.sh run (/verif/seeded/<ID>.logs/check.log).
import sys, json, os, shutil, re
pid, src, dest, status, note = sys.argv[1:6]
logs = sys.argv[6] if len(sys.argv) > 6 else pid
d = os.path.join('/verif/seeded', dest)
if os.path.exists(d):
    shutil.rmtree(d)
os.makedirs(d)
shutil.copy(os.path.join(src, 'patch.diff'), d)
if os.path.isdir(os.path.join(src, 'demo')):
    shutil.copytree(os.path.join(src, 'demo'), os.path.join(d, 'demo'))
meta = json.load(open(os.path.join(src, 'meta.json')))
log = open(f'/verif/seeded/{logs}.logs/check.log').read()
sigs = sorted(set(re.findall(r'signature: (\S.*)', log)))
tier = re.search(r'^%s tier=.*$' % pid, log, re.M)
meta['check_result'] = {'status': status, 'signatures': ', '.join(sigs), 'note': note,
                        'check_summary_line': tier.group(0) if tier else '',
                        'command': 'VERIF_OVERLAY=<overlay of the patched files> /verif/run.sh %s quick' % pid}
json.dump(meta, open(os.path.join(d, 'meta.json'), 'w'), indent=1)
print(dest, status, len(sigs), 'signatures')
