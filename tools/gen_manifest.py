#!/usr/bin/env python3
"""Generate MANIFEST.json from tools/checks.json (single place to keep it valid)."""
import json, sys
spec = json.load(open('/verif/tools/checks.json'))
props = [json.loads(l)['id'] for l in open('/verif/properties.jsonl')]
checks = []
claimed = set()
for c in spec['checks']:
    pid = c['property_id']
    claimed.add(pid)
    checks.append({
        "property_id": pid,
        "quick_cmd": f"/verif/run.sh {pid} quick",
        "thorough_cmd": f"/verif/run.sh {pid} thorough",
        "evidence_file": f"/verif/evidence/{pid}.json",
        "replay_cmd_template": f"/verif/run.sh {pid} quick -replay {{path}}",
        "engine": c['engine'],
        "level_claimed": {"category": c['level'], "text": c['text'], "design_ref": c['design_ref']},
        "level_note": c['note'],
        "technique": c['technique'],
    })
na = []
for p in props:
    if p not in claimed:
        na.append({"property_id": p, "reason": spec['not_applicable'].get(p, "check not built yet in this session; not claimed")})
m = {
    "version": 1,
    "setup_cmd": "/verif/setup.sh",
    "hooks": spec['hooks'],
    "engines": spec['engines'],
    "checks": checks,
    "notes": spec['notes'],
    "not_applicable": na,
}
json.dump(m, open('/verif/MANIFEST.json', 'w'), indent=1)
import jsonschema
jsonschema.validate(m, json.load(open('/root/.vp/MANIFEST.schema.json')))
print("MANIFEST ok:", len(checks), "checks,", len(na), "not claimed")
