package main

import (
	"fmt"
	"os"
	"path/filepath"
	"strings"

	"verif/lib/bmgen"

	"github.com/BondMachineHQ/BondMachine/pkg/bondmachine"
)

// usage: gensample <outdir> <rsize> <R> <N> <M> <L> <O> op1,op2,... ["asm line;asm line"]
func main() {
	var rs, r, n, m, l, o int
	fmt.Sscan(os.Args[2], &rs)
	fmt.Sscan(os.Args[3], &r)
	fmt.Sscan(os.Args[4], &n)
	fmt.Sscan(os.Args[5], &m)
	fmt.Sscan(os.Args[6], &l)
	fmt.Sscan(os.Args[7], &o)
	mc, err := bmgen.NewMachine(bmgen.ArchSpec{Rsize: uint8(rs), R: uint8(r), N: uint8(n), M: uint8(m), L: uint8(l), O: uint8(o), Ops: strings.Split(os.Args[8], ",")})
	if err != nil {
		panic(err)
	}
	if len(os.Args) > 9 {
		prog, err := mc.Arch.Assembler([]byte(strings.ReplaceAll(os.Args[9], ";", "\n") + "\n"))
		if err != nil {
			panic(err)
		}
		mc.Program = prog
	}
	b := bmgen.SingleBM(mc)
	files, err := bmgen.RenderFiles(b, new(bondmachine.Config), "iverilog")
	if err != nil {
		panic(err)
	}
	os.MkdirAll(os.Args[1], 0o755)
	for k, v := range files {
		os.WriteFile(filepath.Join(os.Args[1], k), []byte(v), 0o644)
	}
}
