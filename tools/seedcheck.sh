#!/bin/bash
# usage: seedcheck.sh <ID> <seed-out-dir> [check-tier] [logs-name]
# Verifies a seeded change independently (fresh worktree: builds, baseline tests of touched packages pass, demo fails
# with the patch and passes without) and then runs the /verif check for <ID> against the patched tree through an
# overlay (never touching /repo). Prints a JSON summary.
set -u
id="$1"; out="$2"; tier="${3:-quick}"; logs="${4:-$1}"
. /verif/env.sh
wt=$(mktemp -d /tmp/seedwt.XXXXXX)
trap 'git -C /repo worktree remove --force "$wt" >/dev/null 2>&1; rm -rf "$wt" "$ovd"' EXIT
ovd=$(mktemp -d /tmp/seedov.XXXXXX)
git -C /repo worktree add -q --detach "$wt" HEAD || exit 2
cd "$wt"
pkgs=$(grep '^+++ b/' "$out/patch.diff" | sed 's#^+++ b/##' | xargs -n1 dirname | sort -u | sed 's#^#./#')
democmd=$(python3 -c "import json;print(json.load(open('$out/meta.json'))['demo_cmd'])")
cp -r "$out/demo/." "$wt/" 2>/dev/null
echo "== demo WITHOUT patch"; (cd "$wt" && timeout 900 bash -c "$democmd") > "$ovd/demo_without.log" 2>&1; rc_without=$?
git apply "$out/patch.diff" || { echo "patch does not apply"; exit 2; }
echo "== build"; go build $pkgs > "$ovd/build.log" 2>&1; rc_build=$?
echo "== demo WITH patch"; (cd "$wt" && timeout 900 bash -c "$democmd") > "$ovd/demo_with.log" 2>&1; rc_with=$?
# baseline tests of the touched packages (demo files removed first)
(cd "$wt" && find . -name 'zz_seed_demo*' -delete; rm -rf cmd/zzseeddemo)
echo "== baseline tests of touched packages: $pkgs"
timeout 1500 go test -vet=off -count=1 $pkgs > "$ovd/tests.log" 2>&1; rc_tests=$?
grep -E "^(ok|FAIL|---)" "$ovd/tests.log" | head -20
# overlay: every file changed by the patch
python3 - "$wt" "$out/patch.diff" "$ovd/ov.json" <<'PY'
import sys, json, re, shutil, os
wt, patch, ovp = sys.argv[1:]
rep = {}
for l in open(patch):
    m = re.match(r'^\+\+\+ b/(.*)$', l.strip())
    if m:
        f = m.group(1)
        dst = os.path.join(os.path.dirname(ovp), f.replace('/', '__'))
        shutil.copy(os.path.join(wt, f), dst)
        rep['/repo/' + f] = dst
json.dump({"Replace": rep}, open(ovp, 'w'))
PY
echo "== /verif check $id $tier with the patch (overlay)"
VERIF_OVERLAY="$ovd/ov.json" timeout 3000 /verif/run.sh "$id" "$tier" > "$ovd/check.log" 2>&1; rc_check=$?
grep -E "^VIOLATION|signature:|^$id tier" "$ovd/check.log" | head -12
nviol=$(grep -c "^VIOLATION" "$ovd/check.log")
echo "SUMMARY {\"id\":\"$id\",\"build_rc\":$rc_build,\"demo_without_rc\":$rc_without,\"demo_with_rc\":$rc_with,\"tests_rc\":$rc_tests,\"check_rc\":$rc_check,\"violations\":$nviol}"
mkdir -p "/verif/seeded/$logs.logs" && cp "$ovd"/*.log "/verif/seeded/$logs.logs/" 2>/dev/null
