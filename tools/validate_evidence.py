#!/usr/bin/env python3
"""Validate MANIFEST.json and every evidence file against the schemas; print a one-line status each."""
import json, glob, sys
import jsonschema
ok = True
m = json.load(open('/verif/MANIFEST.json'))
jsonschema.validate(m, json.load(open('/root/.vp/MANIFEST.schema.json')))
sch = json.load(open('/root/.vp/EVIDENCE.schema.json'))
claimed = {c['property_id'] for c in m['checks']}
for pid in sorted(claimed):
    f = '/verif/evidence/%s.json' % pid
    try:
        e = json.load(open(f))
        jsonschema.validate(e, sch)
        lvl = next(c['level_claimed']['category'] for c in m['checks'] if c['property_id'] == pid)
        note = '' if e['level'] == lvl else ' LEVEL-MISMATCH(%s vs %s)' % (e['level'], lvl)
        print(pid, e['tier'], 'violations=%s' % e.get('violations'), 'ok' + note)
        if e.get('violations') or note:
            ok = False
    except Exception as ex:
        ok = False
        print(pid, 'INVALID', str(ex)[:160])
sys.exit(0 if ok else 1)
