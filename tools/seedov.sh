#!/bin/bash
# usage: seedov.sh <ID> <seed-out-dir> [tier]   -- only the last step of seedcheck.sh: run the /verif check for <ID>
# against the seeded change through an overlay (used while strengthening a check; seedcheck.sh is the full verification)
set -u
id="$1"; out="$2"; tier="${3:-quick}"
. /verif/env.sh
wt=$(mktemp -d /tmp/seedwt.XXXXXX); ovd=$(mktemp -d /tmp/seedov.XXXXXX)
trap 'git -C /repo worktree remove --force "$wt" >/dev/null 2>&1; rm -rf "$wt" "$ovd"' EXIT
git -C /repo worktree add -q --detach "$wt" HEAD || exit 2
cd "$wt" && git apply "$out/patch.diff" || { echo "patch does not apply"; exit 2; }
python3 - "$wt" "$out/patch.diff" "$ovd/ov.json" <<'PY'
import sys, json, re, shutil, os
wt, patch, ovp = sys.argv[1:]
rep = {}
for l in open(patch):
    m = re.match(r'^\+\+\+ b/(.*)$', l.strip())
    if m:
        f = m.group(1)
        dst = os.path.join(os.path.dirname(ovp), f.replace('/', '__'))
        shutil.copy(os.path.join(wt, f), dst)
        rep['/repo/' + f] = dst
json.dump({"Replace": rep}, open(ovp, 'w'))
PY
VERIF_OVERLAY="$ovd/ov.json" timeout 3000 /verif/run.sh "$id" "$tier" > "$ovd/check.log" 2>&1; rc=$?
grep -E "^VIOLATION|signature:|^$id tier|BUILD" "$ovd/check.log" | cut -c1-300 | head -12
echo "check_rc=$rc"
