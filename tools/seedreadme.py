#!/usr/bin/env python3
# Regenerates /verif/seeded/README.md from the meta.json of every saved seed.
import json, os, glob, re
rows = []
for d in sorted(glob.glob('/verif/seeded/C*/')):
    name = os.path.basename(d.rstrip('/'))
    try:
        m = json.load(open(os.path.join(d, 'meta.json')))
    except Exception:
        continue
    cr = m.get('check_result', {})
    esc = lambda s: str(s).replace('|', '\\|').replace('\n', ' ')
    cut = lambda s, n: (s[:n] + '…') if len(s) > n else s
    st = cr.get('status', '?')
    if cr.get('note'):
        st += ' — ' + cr['note']
    rows.append((name, cut(esc(m.get('summary', '')), 420), cut(esc(m.get('needs', '')), 320), esc(st), '`' + cut(esc(cr.get('signatures', '')), 260) + '`'))
det = sum(1 for r in rows if r[3].startswith('detected') and not r[3].startswith('detected after'))
out_of = sum(1 for r in rows if r[3].startswith('not detected'))
aft = sum(1 for r in rows if r[3].startswith('detected after'))
out = ['# Independently seeded property-breaking changes', '',
 'Each directory holds a change written by a fresh sub-agent that was given only the text of one property (from round 2 on also a one-paragraph description of the earlier seeds for that property, so that it picks a different mechanism) and a scratch worktree of `/repo` — nothing from /verif: `patch.diff`, the agent\'s demonstration (`demo/`, fails with the patch, passes without) and `meta.json` (what it breaks, what it needs to manifest, what was run, and `check_result`). Every change was re-verified by `tools/seedcheck.sh` in a fresh worktree (applies, builds, existing tests of the touched packages pass, demo passes/fails as claimed) and the corresponding check was then run against the patched tree through `VERIF_OVERLAY` (never touching `/repo`). `<ID>` = round 1, `<ID>-r2` = round 2, `<ID>-r3` = round 3, `<ID>-r4` = round 4, `<ID>-r5` = round 5, `<ID>-r6` = round 6.', '',
 '| id | change | needs | check result | signatures |', '|---|---|---|---|---|']
for r in rows:
    out.append('| ' + ' | '.join(r) + ' |')
out += ['', f'{len(rows)} seeded changes: {det} were detected by the check as it stood when the seed was written, {aft} were missed at first and are detected after the strengthening noted in the row, {out_of} are not detected by their own check (see their rows: one trigger lies outside the premise of its property, one change is caught by the neighbouring check C02 only) (every strengthening is a generalisation of the explored space — a new dimension, family or oracle — not a special case for the seed). None of these patches is applied to `/repo`.', '']
open('/verif/seeded/README.md', 'w').write('\n'.join(out))
print(len(rows), det, aft)
